/* C12: lock-discipline accessors.  After the definition (or extern declaration) of each shared variable the weaver inserts
       #define x C12_ACC(x, <guard>, "<text>")
   so that every later textual use of x in the translation unit -- including uses inside the queue macros -- first asserts that the
   guard holds: the mutex that protects x is held by this thread, or no other thread of the run can exist (single-threaded phase).
   What "held" means is supplied by each harness (verif_lock_ok), i.e. by the ghost lock flags of its monitor model.
   The macro is self-referential on purpose: inside its own expansion the name x is not expanded again (C11 6.10.3.4). */
#ifndef C12_ACC_H
#define C12_ACC_H
enum { C12_SCHED = 1, C12_SOURCE, C12_SINK, C12_READER_ONLY, C12_SCHED_OR_READER_READ, C12_SCHED_OR_TOKEN };
int verif_lock_ok(int guard);
#define C12_ACC(var, guard, txt) (*(__CPROVER_assert(verif_lock_ok(guard), txt), &(var)))
#endif
