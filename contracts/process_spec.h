/* Ghost state and assumed POSIX contracts for src/process.c (xread, xwrite, ...). */
#ifndef PROCESS_SPEC_H
#define PROCESS_SPEC_H
#include <stddef.h>
#include <stdint.h>
#include <sys/types.h>
#include <limits.h>

/* ---- ghost state of the input descriptor: what POSIX read() has delivered so far */
extern char *g_rd_next;            /* where the next delivered byte must be stored */
extern size_t g_rd_remaining;      /* free bytes left in the chunk being filled */
extern uintmax_t g_rd_delivered;   /* total bytes read() has delivered */
extern ssize_t g_rd_last;          /* last return value of read() */
extern int g_rd_failed;            /* a read() returned -1 */
extern int g_rd_calls;

/* ---- ghost state of the output descriptor */
extern const char *g_wr_next;      /* the next byte that must be offered to write() */
extern size_t g_wr_remaining;      /* bytes of the current buffer not yet accepted */
extern uintmax_t g_wr_accepted;    /* total bytes write() has accepted */
extern int g_wr_failed;            /* a write() returned -1 */
extern int g_wr_calls;
extern size_t g_xw_size0;        /* xwrite: size at entry (the parameter is consumed by the loop) */

/* ---- work(): what the sniffing read produced */
extern uint32_t g_work_hdr;        /* the four bytes as loaded from memory */
extern size_t g_work_vacant;       /* bytes of the header that could not be read (0..4) */
extern const char *g_work_hdr_addr;
extern uintmax_t g_work_acc0;
extern int g_sched_calls, g_copy_calls;
/* "begins with BZh followed by 1-9", stated on the bytes in memory order (target is little-endian) */
#define HDR_B0(h) ((h) & 0xFFu)
#define HDR_B1(h) (((h) >> 8) & 0xFFu)
#define HDR_B2(h) (((h) >> 16) & 0xFFu)
#define HDR_B3(h) (((h) >> 24) & 0xFFu)
#define IS_BZH(h) (HDR_B0(h) == 0x42u && HDR_B1(h) == 0x5Au && HDR_B2(h) == 0x68u && HDR_B3(h) >= 0x31u && HDR_B3(h) <= 0x39u)
#define WORK_HAS_HEADER (g_work_vacant == 0 && IS_BZH(g_work_hdr))

extern int g_reporter_called;      /* a fail* reporter was entered (they never return) */

extern int g_iter_stop;            /* harness flag: end the run where the next loop iteration would begin */
void verif_iteration_end(int which);

#endif
