/* Specification pieces for src/decode.c (ghost state + pure spec functions).
   Everything here is written from the bzip2 format / property statements. */
#ifndef DECODE_SPEC_H
#define DECODE_SPEC_H
#include <stdint.h>

/* ---- strict code-length delta decoding (bzip2 1.0.x):
     loop: if (cur < 1 || cur > 20) reject;  bit = next(); if (!bit) done;
           bit = next(); cur += bit ? -1 : +1;
   evaluated over one 6-bit look-ahead window (MSB first).  A window holds at
   most three (1,x) pairs; an unterminated window leaves the loop head check of
   its final value to be made here as well (the next window starts with it). */
struct strict_delta { int ok; int len; unsigned consumed; int done; };

static inline struct strict_delta strict_delta_window(int len0, unsigned win)
{
  struct strict_delta r;
  int cur = len0;
  unsigned pos = 0;
  r.ok = 1; r.done = 0;
  for (;;) {
    if (cur < 1 || cur > 20) { r.ok = 0; break; }
    if (pos == 6) break;
    if (((win >> (5 - pos)) & 1u) == 0) { pos += 1; r.done = 1; break; }
    cur += ((win >> (4 - pos)) & 1u) ? -1 : +1;
    pos += 2;
  }
  r.len = cur; r.consumed = pos;
  return r;
}

extern int g_delta_len0, g_delta_stop, g_delta_seen;
extern unsigned g_delta_win;


/* ---- make_tree(): verdict of the completeness (Kraft) test */
extern int g_mt_stop, g_mt_verdict;

/* ---- selector codes: unary, 0 -> 0, 10 -> 1, ... 111110 -> 5; six ones is not a code (returns 6) */
static inline unsigned spec_selector_code(unsigned win6)
{
  unsigned n = 0;
  while (n < 6 && ((win6 >> (5 - n)) & 1u)) n++;
  return n;
}
extern unsigned g_sel_win; extern int g_sel_seen, g_sel_stop, g_group_stop, g_eob_ok;
extern unsigned g_nsel_read;
extern int g_no_mtfv;

extern int g_hdr_stop;
struct decoder_state;
void verif_retrieve_header_done(struct decoder_state *ds, unsigned alpha_size, unsigned num_trees, unsigned num_selectors, const unsigned char *map);

#endif
