#ifndef EXPAND_GHOST_H
#define EXPAND_GHOST_H
#include <stdint.h>
extern uint64_t g_ds_major, g_ds_minor;
extern uintmax_t g_dp_offset; extern unsigned g_dp_live; extern uint64_t g_dp_pos_major, g_dp_pos_minor;
extern int g_stub_ad;
#endif
