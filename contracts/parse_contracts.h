/* Function contracts of src/parse.c, attached on declarations (CBMC merges a
   contract given on a declaration into the definition that follows). */
#ifndef PARSE_CONTRACTS_H
#define PARSE_CONTRACTS_H
#include "parse_spec.h"

struct ref_parser g_ref;
unsigned g_w, g_live0, g_steps, g_did_align;
int g_ghost_on; unsigned g_scan_again;
uint64_t g_buff0;
size_t g_nwords;      /* ghost: number of 32-bit words between bs->data and bs->limit at entry */

int parse(struct parser_state *restrict ps, struct header *restrict hd,
          struct bitstream *bs, unsigned *garbage)
__CPROVER_requires(__CPROVER_is_fresh(ps, sizeof(*ps)))
__CPROVER_requires(__CPROVER_is_fresh(hd, sizeof(*hd)))
__CPROVER_requires(__CPROVER_is_fresh(bs, sizeof(*bs)))
__CPROVER_requires(__CPROVER_is_fresh(garbage, sizeof(*garbage)))
__CPROVER_requires(g_nwords < ((size_t)1 << 40))
__CPROVER_requires(g_nwords == 0 ? (bs->data == (const uint32_t *)0 && bs->limit == (const uint32_t *)0)
                                : (__CPROVER_is_fresh(bs->data, g_nwords * sizeof(uint32_t)) && bs->limit == bs->data + g_nwords))
__CPROVER_requires(BS_OK(bs))
__CPROVER_requires(COUPLED(ps, &g_ref) && g_ghost_on == 1)
__CPROVER_assigns(*ps, *hd, *bs, *garbage, g_ref, g_w, g_live0, g_buff0, g_steps, g_did_align)
/* E1 */
__CPROVER_ensures(__CPROVER_return_value == OK || __CPROVER_return_value == FINISH || __CPROVER_return_value == MORE ||
                  __CPROVER_return_value == ERR_HEADER || __CPROVER_return_value == ERR_STRMCRC || __CPROVER_return_value == ERR_EOF)
/* E2: a block is reported exactly when the reference saw magic+crc; its fields are the stored ones */
__CPROVER_ensures((__CPROVER_return_value == OK) == (g_ref.verdict == V_BLOCK))
__CPROVER_ensures(__CPROVER_return_value != OK || (hd->crc == g_ref.blk_crc && hd->bs100k == g_ref.level && COUPLED(ps, &g_ref)))
/* E3: structural errors */
__CPROVER_ensures((__CPROVER_return_value == ERR_HEADER) == (g_ref.verdict == V_ERR_HEADER))
__CPROVER_ensures((__CPROVER_return_value == ERR_STRMCRC) == (g_ref.verdict == V_ERR_STRMCRC))
/* E4: end of data decided by the reference (single-stream end, or garbage that is not a full header) */
__CPROVER_ensures(g_ref.verdict != V_FINISH || (__CPROVER_return_value == FINISH && *garbage == g_ref.garbage && ps->state == ACCEPT))
/* E5: otherwise the call stopped only because the input ran out */
__CPROVER_ensures(g_ref.verdict != V_CONT ||
   (bs->data == bs->limit && bs->live < 16 &&
    (__CPROVER_return_value == MORE) == !__CPROVER_old(bs->eof) &&
    (__CPROVER_return_value != MORE || COUPLED(ps, &g_ref)) &&
    (!__CPROVER_old(bs->eof) ||
       ((g_ref.phase == R_HDR && g_ref.nwords == 0) ? (__CPROVER_return_value == FINISH && *garbage == 0 && ps->state == ACCEPT) :
        (g_ref.phase == R_HDR && g_ref.nwords == 1) ? (__CPROVER_return_value == FINISH && *garbage == 16 && ps->state == ACCEPT) :
        __CPROVER_return_value == ERR_EOF))))
__CPROVER_ensures(BS_OK(bs) && bs->limit == __CPROVER_old(bs->limit) && bs->eof == __CPROVER_old(bs->eof))
;

#endif
