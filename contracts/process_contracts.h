/* Function contracts for src/process.c, attached on (re)declarations after the
   definitions have been seen.  read()/write() are ASSUMED contracts (POSIX);
   xread()/xwrite() are ENFORCED on the real bodies and REPLACED in callers. */
#ifndef PROCESS_CONTRACTS_H
#define PROCESS_CONTRACTS_H
#include "process_spec.h"

char *g_rd_next; size_t g_rd_remaining; uintmax_t g_rd_delivered; ssize_t g_rd_last; int g_rd_failed, g_rd_calls;
const char *g_wr_next; size_t g_wr_remaining; uintmax_t g_wr_accepted; int g_wr_failed, g_wr_calls;
int g_reporter_called; size_t g_xw_size0;
uint32_t g_work_hdr; size_t g_work_vacant; const char *g_work_hdr_addr; uintmax_t g_work_acc0; int g_sched_calls, g_copy_calls;

#define RD_COUNT(rem) ((rem) > (size_t)SSIZE_MAX ? (size_t)SSIZE_MAX : (rem))

/* POSIX read(): -1, 0 (end of file) or 1..count bytes stored at buf (the stored bytes themselves are not
   modelled: havocking a symbolic-length region exhausts the SAT back end, and xread() never looks at them).  The requires clauses are
   what xread() must guarantee at every call: right descriptor, right place, whole remaining space,
   and never again after a failure. */
ssize_t read(int fd, void *buf, size_t count)
__CPROVER_requires(fd == ispec.fd)
__CPROVER_requires(!g_rd_failed)
__CPROVER_requires(buf == (void *)g_rd_next && count > 0 && count == RD_COUNT(g_rd_remaining))
__CPROVER_assigns(g_rd_next, g_rd_remaining, g_rd_delivered, g_rd_last, g_rd_failed, g_rd_calls)
__CPROVER_ensures(__CPROVER_return_value == -1 || (__CPROVER_return_value >= 0 && (size_t)__CPROVER_return_value <= count))
__CPROVER_ensures(g_rd_last == __CPROVER_return_value && g_rd_failed == (__CPROVER_return_value == -1))
__CPROVER_ensures(__CPROVER_return_value > 0
   ? (g_rd_next == __CPROVER_old(g_rd_next) + __CPROVER_return_value &&
      g_rd_remaining == __CPROVER_old(g_rd_remaining) - (size_t)__CPROVER_return_value &&
      g_rd_delivered == __CPROVER_old(g_rd_delivered) + (uintmax_t)__CPROVER_return_value)
   : (g_rd_next == __CPROVER_old(g_rd_next) && g_rd_remaining == __CPROVER_old(g_rd_remaining) &&
      g_rd_delivered == __CPROVER_old(g_rd_delivered)))
;

/* POSIX write() with count > 0: -1 or 1..count bytes accepted from buf (short writes allowed). */
ssize_t write(int fd, const void *buf, size_t count)
__CPROVER_requires(fd == ospec.fd && fd != -1)
__CPROVER_requires(!g_wr_failed)
__CPROVER_requires(buf == (const void *)g_wr_next && count > 0 && count == RD_COUNT(g_wr_remaining))
__CPROVER_assigns(g_wr_next, g_wr_remaining, g_wr_accepted, g_wr_failed, g_wr_calls)
__CPROVER_ensures(__CPROVER_return_value == -1 || (__CPROVER_return_value >= 1 && (size_t)__CPROVER_return_value <= count))
__CPROVER_ensures(g_wr_failed == (__CPROVER_return_value == -1))
__CPROVER_ensures(__CPROVER_return_value > 0
   ? (g_wr_next == __CPROVER_old(g_wr_next) + __CPROVER_return_value &&
      g_wr_remaining == __CPROVER_old(g_wr_remaining) - (size_t)__CPROVER_return_value &&
      g_wr_accepted == __CPROVER_old(g_wr_accepted) + (uintmax_t)__CPROVER_return_value)
   : (g_wr_next == __CPROVER_old(g_wr_next) && g_wr_remaining == __CPROVER_old(g_wr_remaining) &&
      g_wr_accepted == __CPROVER_old(g_wr_accepted)))
;

#define XR_MAX ((size_t)1 << 40)

/* xread: fills the whole chunk unless end of file; stores what read() delivers contiguously in
   call order; a failed read() never leads to a normal return (C03 O3.1, C21 O21.1). */
void xread(void *vbuf, size_t *vacant)
__CPROVER_requires(__CPROVER_is_fresh(vacant, sizeof(*vacant)) && *vacant > 0 && *vacant < XR_MAX)
__CPROVER_requires(__CPROVER_is_fresh(vbuf, *vacant))
__CPROVER_requires(!g_rd_failed && !g_reporter_called && g_rd_delivered < ((uintmax_t)1 << 62) && ispec.total < ((uintmax_t)1 << 62))
__CPROVER_assigns(*vacant, __CPROVER_object_whole(vbuf), ispec.total, g_rd_next, g_rd_remaining, g_rd_delivered, g_rd_last, g_rd_failed, g_rd_calls, g_reporter_called)
__CPROVER_ensures(!g_rd_failed && !g_reporter_called)
__CPROVER_ensures(*vacant == 0 ? g_rd_last > 0 : g_rd_last == 0)   /* chunk full (last read delivered bytes) or end of file, never both */
__CPROVER_ensures(*vacant <= __CPROVER_old(*vacant))
__CPROVER_ensures(__CPROVER_old(*vacant) - *vacant == g_rd_delivered - __CPROVER_old(g_rd_delivered))
__CPROVER_ensures(ispec.total == __CPROVER_old(ispec.total) + (__CPROVER_old(*vacant) - *vacant))
__CPROVER_ensures(g_rd_next == (char *)vbuf + (__CPROVER_old(*vacant) - *vacant))
;

/* xwrite: offers every byte of the buffer to write() in order, whatever short writes happen;
   ospec.total advances by size; fd == -1 (discard) skips the write; a failed write() never
   leads to a normal return (C03 O3.2, C21 O21.1). */
void xwrite(const void *vbuf, size_t size)
__CPROVER_requires(size < XR_MAX && (size == 0 || __CPROVER_is_fresh(vbuf, size)))
__CPROVER_requires(!g_wr_failed && !g_reporter_called && g_wr_accepted < ((uintmax_t)1 << 62) && ospec.total < ((uintmax_t)1 << 62))
__CPROVER_assigns(ospec.total, g_wr_next, g_wr_remaining, g_wr_accepted, g_wr_failed, g_wr_calls, g_reporter_called, g_xw_size0)
__CPROVER_ensures(!g_wr_failed && !g_reporter_called)
__CPROVER_ensures(ospec.total == __CPROVER_old(ospec.total) + size)
__CPROVER_ensures(ospec.fd == -1 ? g_wr_accepted == __CPROVER_old(g_wr_accepted)
                                 : (g_wr_accepted == __CPROVER_old(g_wr_accepted) + size && (size == 0 || g_wr_next == (const char *)vbuf + size)))
;


/* ---- ASSUMED contracts for the thread-spawning drivers called by work(): the requires clauses are
   the obligations work() has at the call sites (what may be started, with which parameters). */
static void schedule(const struct process *proc)
__CPROVER_requires(decompress ? (proc == &expansion && WORK_HAS_HEADER && bs100k == HDR_B3(g_work_hdr) - 0x30u)
                              : (proc == &compression && g_work_vacant == 99))
__CPROVER_requires(!decompress ? (total_in_slots == 2u * num_worker && total_out_slots == 2u * num_worker + 2u && in_granul == bs100k * 100000u)
                   : !small    ? (total_in_slots == 4u * num_worker && total_out_slots == 16u * num_worker && in_granul == 262144u && out_granul == 900000u)
                               : (total_in_slots == 2u && total_out_slots == 2u * num_worker && in_granul == 32768u && out_granul == 900000u))
__CPROVER_requires(g_sched_calls == 0 && g_copy_calls == 0)
__CPROVER_assigns(g_sched_calls)
__CPROVER_ensures(g_sched_calls == 1)
;

static void copy(void)
__CPROVER_requires(decompress && force && ospec.fd == STDOUT_FILENO && !WORK_HAS_HEADER)
__CPROVER_requires(g_work_vacant <= 4 && g_wr_accepted == g_work_acc0 + (4 - g_work_vacant))
__CPROVER_requires(g_work_vacant == 4 || g_wr_next == g_work_hdr_addr + (4 - g_work_vacant))
__CPROVER_requires(g_sched_calls == 0 && g_copy_calls == 0)
__CPROVER_assigns(g_copy_calls)
__CPROVER_ensures(g_copy_calls == 1)
;

#endif
