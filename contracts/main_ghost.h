#ifndef MAIN_GHOST_H
#define MAIN_GHOST_H
/* ghost hooks called from the woven main(): defined by the harness */
void verif_operand_begin(const char *name, int input_ret);
void verif_operand_end(void);
struct arg;
void verif_after_opts(struct arg **operands);
#endif
