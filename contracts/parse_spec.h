/* Specification of the stream-structure parser (src/parse.c parse(), parser_init()).

   REFERENCE AUTOMATON, written from the bzip2 format and the property statements
   (C05, C06, C15), not from parse.c:

     stream   := "BZ" 'h' digit(1..9)  block*  eos
     block    := 0x314159265359 (48 bits)  crc32   <block data, not parsed here>
     eos      := 0x177245385090 (48 bits)  crc32 == combination of the stream's block CRCs
     after eos: skip to the next byte boundary; then either end of input,
                or another stream, or trailing garbage.  Trailing data is ignored
                ONLY when it does not begin with a full BZh1..BZh9 header.
     combination: c' = rotl1(c) ^ blockcrc, starting from 0 in every stream.

   The automaton consumes the logical bit stream in 16-bit units (every field is
   a multiple of 16 bits and the implementation reads that way); it rejects as
   soon as the bits read so far cannot be extended to a legal field.

   parse()'s contract: starting from a parser_state that is COUPLED to the
   reference state g_ref, one call feeds the reference exactly the 16-bit units
   the call consumes from the bit stream, returns the reference's verdict, and
   leaves the two states COUPLED again. */
#ifndef PARSE_SPEC_H
#define PARSE_SPEC_H
#include <stdint.h>

enum { R_HDR, R_MAGIC, R_BCRC, R_SCRC, R_DONE };
enum { V_CONT, V_BLOCK, V_ERR_HEADER, V_ERR_STRMCRC, V_FINISH };

struct ref_parser {
  int phase;            /* field being read */
  unsigned nwords;      /* 16-bit units of this field already read */
  uint64_t acc;         /* their value */
  int level;            /* digit of the enclosing stream header */
  uint32_t comb;        /* combined CRC of the blocks seen in this stream */
  int single;           /* single-stream mode: stop after the first eos */
  /* outputs of the last step */
  int verdict;
  uint32_t blk_crc;
  unsigned garbage;
  int align;            /* the step ended a stream: the reader must byte-align */
};

extern struct ref_parser g_ref;
/* ghost registers of the bit reader, written by the woven ghost statements */
extern unsigned g_w, g_live0;
extern uint64_t g_buff0;
extern unsigned g_steps, g_did_align;
extern int g_ghost_on;      /* 1 while a contract proof is running; explicit twins switch the woven assertions off */

#define BLOCK_MAGIC48 0x314159265359ull
#define EOS_MAGIC48   0x177245385090ull

static inline void ref_init(struct ref_parser *r, int level, int single)
{
  r->phase = R_MAGIC; r->nwords = 0; r->acc = 0; r->level = level; r->comb = 0; r->single = single;
  r->verdict = V_CONT; r->blk_crc = 0; r->garbage = 0; r->align = 0;
}

static inline int is_prefix48(uint64_t acc, unsigned nwords, uint64_t magic)
{
  return acc == (magic >> (48 - 16 * nwords));
}

/* one 16-bit unit */
static inline void ref_step(struct ref_parser *r, unsigned w)
{
  r->align = 0;
  r->verdict = V_CONT;
  r->acc = (r->acc << 16) | (w & 0xFFFFu);
  r->nwords++;
  switch (r->phase) {
  case R_HDR:
    if (r->nwords == 1) {
      if (r->acc != 0x425Au) { r->verdict = V_FINISH; r->garbage = 16; r->phase = R_DONE; }
    } else {
      unsigned lo = (unsigned)(r->acc & 0xFFFFu);
      if ((lo >> 8) == 0x68u && (lo & 0xFFu) >= 0x31u && (lo & 0xFFu) <= 0x39u) {
        r->level = (int)((lo & 0xFFu) - 0x30u);
        r->phase = R_MAGIC; r->nwords = 0; r->acc = 0;
      } else { r->verdict = V_FINISH; r->garbage = 32; r->phase = R_DONE; }
    }
    break;
  case R_MAGIC:
    if (!is_prefix48(r->acc, r->nwords, BLOCK_MAGIC48) && !is_prefix48(r->acc, r->nwords, EOS_MAGIC48)) {
      r->verdict = V_ERR_HEADER; r->phase = R_DONE;
    } else if (r->nwords == 3) {
      r->phase = (r->acc == BLOCK_MAGIC48) ? R_BCRC : R_SCRC;
      r->nwords = 0; r->acc = 0;
    }
    break;
  case R_BCRC:
    if (r->nwords == 2) {
      r->blk_crc = (uint32_t)r->acc;
      r->comb = ((r->comb << 1) | (r->comb >> 31)) ^ r->blk_crc;
      r->verdict = V_BLOCK;
      r->phase = R_MAGIC; r->nwords = 0; r->acc = 0;
    }
    break;
  case R_SCRC:
    if (r->nwords == 2) {
      if ((uint32_t)r->acc != r->comb) { r->verdict = V_ERR_STRMCRC; r->phase = R_DONE; }
      else if (r->single) { r->verdict = V_FINISH; r->garbage = 0; r->phase = R_DONE; }
      else { r->comb = 0; r->align = 1; r->phase = R_HDR; r->nwords = 0; r->acc = 0; }
    }
    break;
  default:
    r->verdict = V_ERR_HEADER;   /* stepping a finished reference is a contract violation */
    break;
  }
}

/* verdict when the input is exhausted (eof) between two units */
static inline int ref_at_eof_is_clean(const struct ref_parser *r, unsigned *garbage)
{
  if (r->phase == R_HDR && r->nwords == 0) { *garbage = 0; return 1; }
  if (r->phase == R_HDR && r->nwords == 1) { *garbage = 16; return 1; }  /* "BZ" alone is not a full header */
  return 0;
}

/* ---- coupling between the implementation's parser_state and the reference.
   State names are parse.c's private enum; ACCEPT comes from scantab.h. */
#define COUPLED(ps, r) ( \
  (ps)->computed_crc == (r)->comb && (!!(ps)->stream_mode) == (!!(r)->single) && \
  ( ((ps)->state == STREAM_MAGIC_1 && (r)->phase == R_HDR   && (r)->nwords == 0 && (r)->acc == 0 && !(r)->single) \
 || ((ps)->state == STREAM_MAGIC_2 && (r)->phase == R_HDR   && (r)->nwords == 1 && (r)->acc == 0x425Au && !(r)->single) \
 || ((ps)->state == BLOCK_MAGIC_1  && (r)->phase == R_MAGIC && (r)->nwords == 0 && (r)->acc == 0 && (ps)->bs100k == (r)->level) \
 || ((ps)->state == BLOCK_MAGIC_2  && (r)->phase == R_MAGIC && (r)->nwords == 1 && (r)->acc == 0x3141u && (ps)->bs100k == (r)->level) \
 || ((ps)->state == BLOCK_MAGIC_3  && (r)->phase == R_MAGIC && (r)->nwords == 2 && (r)->acc == 0x31415926u && (ps)->bs100k == (r)->level) \
 || ((ps)->state == EOS_2          && (r)->phase == R_MAGIC && (r)->nwords == 1 && (r)->acc == 0x1772u) \
 || ((ps)->state == EOS_3          && (r)->phase == R_MAGIC && (r)->nwords == 2 && (r)->acc == 0x17724538u) \
 || ((ps)->state == BLOCK_CRC_1    && (r)->phase == R_BCRC  && (r)->nwords == 0 && (r)->acc == 0 && (ps)->bs100k == (r)->level) \
 || ((ps)->state == BLOCK_CRC_2    && (r)->phase == R_BCRC  && (r)->nwords == 1 && (r)->acc == (ps)->stored_crc && (r)->acc <= 0xFFFFu && (ps)->bs100k == (r)->level) \
 || ((ps)->state == EOS_CRC_1      && (r)->phase == R_SCRC  && (r)->nwords == 0 && (r)->acc == 0) \
 || ((ps)->state == EOS_CRC_2      && (r)->phase == R_SCRC  && (r)->nwords == 1 && (r)->acc == (ps)->stored_crc && (r)->acc <= 0xFFFFu) ))

#define DONE_COUPLED(ps, r) ((ps)->state == ACCEPT && (r)->phase == R_DONE)

/* ---- representation invariant of the bit reader (B3) */
#define BS_OK(bs) ((bs)->live <= 63u && ((bs)->live == 0 ? (bs)->buff == 0 : ((bs)->buff << (bs)->live) == 0))

extern unsigned g_scan_again;
#endif
