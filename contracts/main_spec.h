/* Reference functions for the documented operand naming rules (man page / usage text):
     compressing:   operands ending in .bz2 .tbz .tbz2 .tz2 are skipped; output = name + ".bz2"
     decompressing: ".bz2" removed; ".tbz" ".tbz2" ".tz2" replaced by ".tar"; other names get ".out" */
#ifndef MAIN_SPEC_H
#define MAIN_SPEC_H
#include <stddef.h>

static inline int spec_ends_with(const char *name, size_t len, const char *suf, size_t slen)
{
  size_t i;
  if (len < slen) return 0;
  for (i = 0; i < slen; i++)
    if (name[len - slen + i] != suf[i]) return 0;
  return 1;
}

static inline int spec_has_compressed_suffix(const char *name, size_t len)
{
  return spec_ends_with(name, len, ".bz2", 4) || spec_ends_with(name, len, ".tbz", 4) ||
         spec_ends_with(name, len, ".tbz2", 5) || spec_ends_with(name, len, ".tz2", 4);
}

/* writes the expected decompressed name into out (capacity >= len + 5), returns its length */
static inline size_t spec_decompressed_name(const char *name, size_t len, char *out)
{
  size_t keep, i, n = 0;
  const char *add;
  if (spec_ends_with(name, len, ".bz2", 4)) { keep = len - 4; add = ""; }
  else if (spec_ends_with(name, len, ".tbz2", 5)) { keep = len - 5; add = ".tar"; }
  else if (spec_ends_with(name, len, ".tbz", 4)) { keep = len - 4; add = ".tar"; }
  else if (spec_ends_with(name, len, ".tz2", 4)) { keep = len - 4; add = ".tar"; }
  else { keep = len; add = ".out"; }
  for (i = 0; i < keep; i++) out[n++] = name[i];
  for (i = 0; add[i]; i++) out[n++] = add[i];
  out[n] = 0;
  return n;
}
#endif
