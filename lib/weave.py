#!/usr/bin/env python3
"""Weaver: inserts loop contracts and ghost statements from contracts/*.spec into
a scratch copy of /repo/src, and proves that deleting exactly the inserted byte
ranges yields the original files byte-for-byte.

Spec syntax (one file per source file, name <file>.spec, e.g. parse.c.spec):

  # comment
  @@ <function|-> <mode> [nth=K] [ord=N] :: <anchor text>
  inserted text ...
  @@ end

modes
  top        (function '-') insert at the very start of the file
  gafter     (function '-') insert as new line(s) after a file-scope declaration line (unindented, ends in ';')
  gbefore    (function '-') likewise, before it
  prefunc    insert on a new line before the first line of the function
             definition (its return-type line); anchor ignored
  begin      insert right after the opening brace line of the function body
  before     insert as new line(s) before the anchor line
  after      insert as new line(s) after the anchor line
  eol        append to the end of the anchor line
  prebrace   insert before the last '{' of the anchor line (loop contracts)
  presemi    insert before the last ';' of the anchor line (do-while contracts)
  extract    do not insert anything: copy a SECTION of the function verbatim into <out>/extract/<name>.inc so that a
             harness can run those very lines with symbolic context (the directive's body is the name).  The section
             starts at the anchor line and ends at its matching closing brace (anchor line ends in '{') or after
             lines=N lines.  Everything else of the function is dropped -- the harness states its context assumptions.
  wrapret    anchor line is 'return EXPR;': becomes 'return (GHOST, EXPR);' --
             the only safe way to attach a ghost expression to a return that is
             the brace-less body of an if

'before' and 'after' refuse to insert next to a brace-less if/else/loop body
(the inserted statement would capture or release the body).

The anchor is compared after whitespace normalisation against each line of the
function's extent (substring match).  It must match exactly one line unless
nth=K selects the K-th match.  ord=N is a fallback for loop modes: if the text
is not found, the N-th loop keyword line (for/while/do, 1-based) of the
function is used.  Any failure raises WeaveError -> the caller exits 2
(undecided), never a violation.
"""
import os, re, shutil, sys


class WeaveError(Exception):
    pass


def _norm(s):
    return re.sub(r'\s+', ' ', s.strip())


def parse_spec(path):
    items = []
    cur = None
    for ln, line in enumerate(open(path), 1):
        if cur is None:
            if line.startswith('@@'):
                m = re.match(r'@@\s+(\S+)\s+(\S+)((?:\s+\w+=\d+)*)\s*(?:::\s*(.*))?$', line.rstrip('\n'))
                if not m:
                    raise WeaveError(f'{path}:{ln}: bad directive: {line!r}')
                opts = dict(kv.split('=') for kv in m.group(3).split())
                cur = dict(func=m.group(1), mode=m.group(2), anchor=(m.group(4) or '').strip(),
                           nth=int(opts.get('nth', 0)), ord=int(opts.get('ord', 0)), lines=int(opts.get('lines', 0)),
                           text=[], where=f'{path}:{ln}')
            elif line.strip() == '' or line.lstrip().startswith('#'):
                continue
            else:
                raise WeaveError(f'{path}:{ln}: text outside directive')
        else:
            if line.startswith('@@ end'):
                items.append(cur)
                cur = None
            else:
                cur['text'].append(line)
    if cur is not None:
        raise WeaveError(f'{path}: unterminated directive {cur["where"]}')
    return items


def func_extent(lines, name):
    """Return (first_line_of_definition, open_brace_line, close_brace_line), 0-based."""
    pat = re.compile(r'^' + re.escape(name) + r'\s*\(')
    cands = [i for i, l in enumerate(lines) if pat.match(l)]
    defs = []
    for i in cands:
        # walk forward to the line that is exactly "{" before hitting a ';' at depth 0
        j = i
        depth = 0
        found = None
        while j < len(lines) and j < i + 40:
            l = lines[j]
            if l.rstrip('\n') == '{':
                found = j
                break
            depth += l.count('(') - l.count(')')
            if depth == 0 and l.rstrip().endswith(';'):
                break  # prototype
            j += 1
        if found is None:
            continue
        k = found + 1
        while k < len(lines) and lines[k].rstrip('\n') != '}':
            k += 1
        if k >= len(lines):
            raise WeaveError(f'function {name}: no closing brace')
        start = i - 1 if i > 0 and not lines[i - 1].strip() == '' and not lines[i - 1].startswith(('}', '#', '/', ' ')) else i
        defs.append((start, found, k))
    if len(defs) != 1:
        raise WeaveError(f'function {name}: {len(defs)} definitions found')
    return defs[0]


LOOP_RE = re.compile(r'^\s*(for\s*\(|while\s*\(|do\b)')


def weave_file(src_path, spec_items):
    data = open(src_path, 'rb').read().decode('latin-1')
    lines = data.splitlines(keepends=True)
    # byte offset of each line
    offs = [0]
    for l in lines:
        offs.append(offs[-1] + len(l))
    inserts = []  # (offset, seq, text)
    extracts = {}
    for seq, it in enumerate(spec_items):
        text = ''.join(it['text'])
        mode = it['mode']
        if mode == 'top':
            inserts.append((0, seq, text))
            continue
        if mode in ('gafter', 'gbefore'):
            # file-scope anchor (function '-'): a declaration line outside any function body, matched over the whole file
            want = _norm(it['anchor'])
            hits = [i for i in range(len(lines)) if want and want in _norm(lines[i])]
            idx = hits[it['nth'] - 1] if it['nth'] and len(hits) >= it['nth'] else (hits[0] if len(hits) == 1 else None)
            if idx is None:
                raise WeaveError(f'{it["where"]}: file-scope anchor {it["anchor"]!r} matched {len(hits)} lines')
            code = re.sub(r'/\*.*?\*/', '', lines[idx]).rstrip()
            if lines[idx][:1] in (' ', '\t') or not (code.endswith(';') or code.startswith('#include')):
                raise WeaveError(f'{it["where"]}: file-scope anchor is not an unindented declaration line ending in ";" (or an #include line)')
            inserts.append((offs[idx + 1] if mode == 'gafter' else offs[idx], seq, text))
            continue
        start, ob, cb = func_extent(lines, it['func'])
        if mode == 'prefunc':
            inserts.append((offs[start], seq, text))
            continue
        if mode == 'begin':
            inserts.append((offs[ob + 1], seq, text))
            continue
        want = _norm(it['anchor'])
        hits = [i for i in range(start, cb + 1) if want and want in _norm(lines[i])]
        idx = None
        if it['nth']:
            if len(hits) >= it['nth']:
                idx = hits[it['nth'] - 1]
        elif len(hits) == 1:
            idx = hits[0]
        if idx is None and it['ord'] and mode in ('prebrace', 'presemi', 'eol'):
            loops = [i for i in range(ob, cb + 1) if LOOP_RE.match(lines[i])]
            if len(loops) >= it['ord']:
                idx = loops[it['ord'] - 1]
                if mode == 'presemi':
                    raise WeaveError(f'{it["where"]}: ord fallback unsupported for presemi')
        if idx is None:
            raise WeaveError(f'{it["where"]}: anchor {it["anchor"]!r} matched {len(hits)} lines in {it["func"]}')
        line = lines[idx]
        body = line.rstrip('\n')
        if mode == 'extract':
            name = text.strip()
            if not re.match(r'^[A-Za-z0-9_]+$', name):
                raise WeaveError(f'{it["where"]}: extract needs a plain name as its body')
            if it.get('lines'):
                last = idx + it['lines'] - 1
            elif body.rstrip().endswith('{'):
                depth, j = 0, idx
                while j <= cb:
                    depth += lines[j].count('{') - lines[j].count('}')
                    if depth == 0:
                        break
                    j += 1
                if j > cb:
                    raise WeaveError(f'{it["where"]}: extract: unbalanced braces')
                last = j
            else:
                raise WeaveError(f'{it["where"]}: extract needs a block anchor or lines=N')
            extracts[name] = ''.join(lines[idx:last + 1])
            continue
        if mode in ('before', 'after'):
            # guard: the anchor line must not be the brace-less body of a control statement,
            # and (for 'after') must not itself be a brace-less control header
            j = idx - 1
            while j > ob and lines[j].strip() == '':
                j -= 1
            prev = lines[j].rstrip()
            prevc = re.sub(r'/\*.*?\*/', '', prev).rstrip()
            if mode == 'before' and (prevc.endswith(')') or prevc.endswith('else')) and not prevc.lstrip().startswith(('__CPROVER', 'assert')):
                raise WeaveError(f'{it["where"]}: anchor line is a brace-less body (previous line {prev.strip()!r}); use wrapret or another anchor')
            bodyc = re.sub(r'/\*.*?\*/', '', body).rstrip()
            if mode == 'after' and re.match(r'\s*(if|for|while|else)\b', bodyc) and not bodyc.endswith(('{', ';')):
                raise WeaveError(f'{it["where"]}: cannot insert after a brace-less control header')
        if mode == 'wrapret':
            m = re.match(r'^(\s*return\s+)(.*?)(;\s*)$', body)
            if not m:
                raise WeaveError(f'{it["where"]}: wrapret anchor is not a simple return statement')
            a = offs[idx] + len(m.group(1))
            b = offs[idx] + len(m.group(1)) + len(m.group(2))
            inserts.append((a, seq, '(' + text.strip() + ', '))
            inserts.append((b, seq, ')'))
        elif mode == 'before':
            inserts.append((offs[idx], seq, text))
        elif mode == 'after':
            inserts.append((offs[idx + 1], seq, text))
        elif mode == 'eol':
            inserts.append((offs[idx] + len(body), seq, ' ' + text.rstrip('\n')))
        elif mode == 'prebrace':
            p = body.rfind('{')
            if p < 0:
                raise WeaveError(f'{it["where"]}: no "{{" on anchor line')
            inserts.append((offs[idx] + p, seq, '\n' + text))
        elif mode == 'presemi':
            p = body.rfind(';')
            if p < 0:
                raise WeaveError(f'{it["where"]}: no ";" on anchor line')
            inserts.append((offs[idx] + p, seq, '\n' + text))
        else:
            raise WeaveError(f'{it["where"]}: unknown mode {mode}')
    inserts.sort()
    out = []
    ranges = []
    pos = 0
    outlen = 0
    for off, _, text in inserts:
        out.append(data[pos:off]); outlen += off - pos
        ranges.append((outlen, outlen + len(text)))
        out.append(text); outlen += len(text)
        pos = off
    out.append(data[pos:])
    woven = ''.join(out)
    # strip check
    stripped = []
    p = 0
    for a, b in ranges:
        stripped.append(woven[p:a]); p = b
    stripped.append(woven[p:])
    if ''.join(stripped) != data:
        raise WeaveError(f'{src_path}: strip check failed')
    return woven, len(inserts), extracts


def weave_tree(repo_src, spec_dir, out_src):
    """Copy repo_src to out_src, weaving every file that has a spec. Returns dict file->n."""
    if os.path.exists(out_src):
        shutil.rmtree(out_src)
    shutil.copytree(repo_src, out_src)
    report = {}
    for f in sorted(os.listdir(spec_dir)):
        if not f.endswith('.spec'):
            continue
        target = f[:-5]
        sp = os.path.join(repo_src, target)
        if not os.path.exists(sp):
            raise WeaveError(f'spec {f}: no source file {sp}')
        items = parse_spec(os.path.join(spec_dir, f))
        woven, n, extracts = weave_file(sp, items)
        with open(os.path.join(out_src, target), 'wb') as fh:
            fh.write(woven.encode('latin-1'))
        if extracts:
            os.makedirs(os.path.join(out_src, 'extract'), exist_ok=True)
            for name, txt in extracts.items():
                with open(os.path.join(out_src, 'extract', name + '.inc'), 'wb') as fh:
                    fh.write(txt.encode('latin-1'))
        report[target] = n
    return report


if __name__ == '__main__':
    try:
        r = weave_tree(sys.argv[1], sys.argv[2], sys.argv[3])
        print(r)
    except WeaveError as e:
        print('WEAVE-ERROR', e)
        sys.exit(2)
