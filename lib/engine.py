#!/usr/bin/env python3
"""Obligation runner: weave -> goto-cc -> goto-instrument (dfcc) -> cbmc -> classify."""
import json, os, re, resource, shutil, subprocess, sys, tempfile, time
from concurrent.futures import ThreadPoolExecutor
from dataclasses import dataclass, field
from typing import Dict, List, Optional

VERIF = os.path.dirname(os.path.dirname(os.path.abspath(__file__)))
REPO = os.environ.get('VERIF_REPO', '/repo')
sys.path.insert(0, os.path.join(VERIF, 'lib'))
import weave  # noqa: E402

DEFAULT_CHECKS = ['--bounds-check', '--pointer-check', '--signed-overflow-check',
                  '--undefined-shift-check', '--div-by-zero-check', '--pointer-overflow-check']
GUARD = 'KJN_LBZIP2_VERIF'
# per-obligation time limits are the measured time on this 16-core sandbox times a generous margin; a slower or busier machine must not turn a proof into 'undecided'
TIMEOUT_SCALE = float(os.environ.get('VERIF_TIMEOUT_SCALE', '3'))


@dataclass
class Ob:
    name: str                       # unique obligation-group name
    props: List[str]                # property ids this obligation helps decide
    kind: str                       # proof | complete-unwind | lemma | bounded
    harness: str                    # file under harness/
    entry: str                      # harness entry function
    what: str = ''                  # one-line statement of what is proved
    functions: List[str] = field(default_factory=list)   # real functions under contract / check
    bound: str = ''                 # for kind == bounded: the stated bound
    extra_srcs: List[str] = field(default_factory=list)  # extra TUs (relative to scratch, e.g. src/crctab.c)
    enforce: Optional[str] = None
    replace: List[str] = field(default_factory=list)
    loop_contracts: bool = False
    flags: List[str] = field(default_factory=list)
    checks: Optional[List[str]] = None
    solver: str = 'sat'             # sat | cadical | z3 | cvc5
    timeout: int = 600
    mem_gb: int = 16
    defines: Dict[str, str] = field(default_factory=dict)
    expect: List[str] = field(default_factory=list)      # regexes that must match some property (name + description)
    tier: str = 'quick'             # quick obligations run in both tiers; thorough only in thorough
    assumed: List[str] = field(default_factory=list)     # assumed / trusted contracts used by this obligation
    replayable: bool = False        # explicit-style harness: counterexample can be replayed natively
    replay_src: str = ''            # file under /repo/src whose unwoven text the replay includes (informational)
    known_key: str = ''             # stable key used in known-findings.txt
    canaries: List[str] = field(default_factory=list)   # regexes of woven canaries (outside the harness file) that must be hit
    ignore: List[str] = field(default_factory=list)      # regexes of CBMC checks that are documented as out of scope for this obligation
    trace_vars: List[str] = field(default_factory=list)  # extra (ghost) variables whose last traced value feeds the replay
    stream_replay: str = ''       # name of a stream-level replay generator in lib/streamgen.py (runs the real lbzip2 binary)
    twin: str = ''                  # name of an explicit bounded obligation used to find a concrete input when this one fails
    slow_for: List[str] = field(default_factory=list)   # properties for which this obligation runs in the thorough tier only (it stays quick for the others)
    gi_flags: List[str] = field(default_factory=list)   # extra goto-instrument pass (e.g. --restrict-function-pointer) before cbmc, non-dfcc harnesses

    @property
    def dfcc(self):
        return bool(self.enforce or self.replace or self.loop_contracts)


@dataclass
class Result:
    ob: Ob
    status: str                     # pass | fail | undecided | vacuous
    reason: str = ''
    n_props: int = 0
    n_ok: int = 0
    failed: List[dict] = field(default_factory=list)
    canaries: int = 0
    wall: float = 0.0
    cmd: str = ''
    log: str = ''
    samples: List[str] = field(default_factory=list)
    solver_time: float = 0.0
    replay: str = ''
    ignored: List[str] = field(default_factory=list)


def _limits(mem_gb):
    def f():
        b = mem_gb * (1 << 30)
        resource.setrlimit(resource.RLIMIT_AS, (b, b))
        os.setsid()
    return f


def _run(cmd, timeout, mem_gb, cwd=None):
    t0 = time.time()
    try:
        p = subprocess.run(cmd, stdout=subprocess.PIPE, stderr=subprocess.STDOUT, timeout=timeout,
                           preexec_fn=_limits(mem_gb), cwd=cwd)
        return p.returncode, p.stdout.decode('utf-8', 'replace'), time.time() - t0
    except subprocess.TimeoutExpired as e:
        out = (e.stdout or b'').decode('utf-8', 'replace')
        return -999, out + '\nTIMEOUT', time.time() - t0


class Scratch:
    def __init__(self):
        base = os.environ.get('VERIF_SCRATCH_BASE') or tempfile.gettempdir()
        self.dir = tempfile.mkdtemp(prefix='lbzverif.', dir=base)
        self.src = os.path.join(self.dir, 'src')
        self.woven = None

    def weave(self):
        self.woven = weave.weave_tree(os.path.join(REPO, 'src'), os.path.join(VERIF, 'contracts'), self.src)
        return self.woven

    def cleanup(self):
        shutil.rmtree(self.dir, ignore_errors=True)


SOLVER_FLAGS = {'sat': [], 'cadical': ['--sat-solver', 'cadical'], 'z3': ['--z3'], 'cvc5': ['--cvc5'],
                'kissat': ['--external-sat-solver', 'kissat']}

BAD_LOG = [r'ignoring forall', r'ignoring exists', r'no body for (function|callee)', r'VERIFICATION ERROR',
           r'Parse Error', r'does not have a contract']


def symtab_check(ob: Ob, sc: Scratch) -> Result:
    """Supporting static fact (C12/C03): which objects of static storage duration can be written at run time.  Every translation
    unit named in ob.extra_srcs is compiled with goto-cc from the woven tree and its symbol table inspected: an object with static
    lifetime, defined in that file, whose type is not const-qualified must be listed in ob.defines['ALLOW'] (the guard map)."""
    t0 = time.time()
    res = Result(ob=ob, status='undecided')
    allow = set(x for x in ob.defines.get('ALLOW', '').split(',') if x)
    log, failed, seen = [], [], 0
    for src in ob.extra_srcs:
        wd = os.path.join(sc.dir, 'symtab_' + os.path.basename(src))
        os.makedirs(wd, exist_ok=True)
        gb = os.path.join(wd, 'o.gb')
        cc = ['goto-cc', '-D' + GUARD, '-DPACKAGE_NAME="lbzip2"', '-DPACKAGE_VERSION="devel"', '-D_XOPEN_SOURCE=700', '-D_FILE_OFFSET_BITS=64', '-std=gnu99',
              '-I', sc.dir, '-I', sc.src, '-I', os.path.join(VERIF, 'harness'), '-I', os.path.join(VERIF, 'contracts'), '-c', os.path.join(sc.dir, src), '-o', gb]
        rc, out, _ = _run(cc, 300, 8)
        log.append('$ ' + ' '.join(cc) + '\n' + out[-2000:])
        if rc != 0:
            res.reason = 'goto-cc failed on ' + src; res.log = '\n'.join(log); res.wall = time.time() - t0
            return res
        rc, out, _ = _run(['goto-instrument', '--show-symbol-table', '--json-ui', gb], 300, 8)
        try:
            js = json.loads(out)
        except Exception:
            res.reason = 'symbol table not JSON for ' + src; res.log = '\n'.join(log) + out[-1000:]; res.wall = time.time() - t0
            return res
        for item in js:
            for name, sym in (item.get('symbolTable') or {}).items():
                loc = sym.get('location') or {}
                if not sym.get('isStaticLifetime') or sym.get('isType') or sym.get('isMacro') or sym.get('isExtern') or (sym.get('type') or {}).get('id') == 'code':
                    continue
                if os.path.basename(str(loc.get('file', ''))) != os.path.basename(src) or name.startswith('__CPROVER') or 'string_constant' in name or '$' in name:
                    continue
                seen += 1
                tj = json.dumps(sym.get('type'))
                is_const = '"#constant"' in tj
                base = name.split('::')[-1]
                res.samples.append(f'{os.path.basename(src)}:{loc.get("line")} {name} ' + ('const' if is_const else 'mutable'))
                if not is_const and base not in allow and name not in allow:
                    failed.append({'property': f'static_storage.{os.path.basename(src)}.{base}', 'status': 'FAILURE', 'file': str(loc.get('file')), 'line': loc.get('line'), 'trace': None,
                                   'description': f'mutable object of static storage duration {name} ({os.path.basename(src)}:{loc.get("line")}) is shared by every thread and not in the guard map'})
    res.n_props = seen
    res.n_ok = seen - len(failed)
    res.canaries = 1 if seen > 0 else 0
    res.cmd = 'goto-cc -c <woven TU> && goto-instrument --show-symbol-table --json-ui   (for each of: ' + ', '.join(ob.extra_srcs) + ')'
    res.log = '\n'.join(log)
    res.samples = res.samples[:6]
    res.wall = res.solver_time = time.time() - t0
    if failed:
        res.failed = failed; res.status = 'fail'; res.reason = '; '.join(f['description'] for f in failed[:3])
    elif seen == 0:
        res.status = 'vacuous'; res.reason = 'no static objects seen at all (symbol table scan broken?)'
    else:
        res.status = 'pass'
    return res


def build_and_check(ob: Ob, sc: Scratch, want_trace=False) -> Result:
    if ob.harness == '__symtab__':
        return symtab_check(ob, sc)
    t0 = time.time()
    wd = os.path.join(sc.dir, 'ob_' + re.sub(r'[^A-Za-z0-9_.-]', '_', ob.name))
    os.makedirs(wd, exist_ok=True)
    res = Result(ob=ob, status='undecided')
    log = []
    cc = ['goto-cc', '-D' + GUARD, '-DPACKAGE_NAME="lbzip2"', '-DPACKAGE_VERSION="devel"',
          '-D_XOPEN_SOURCE=700', '-D_FILE_OFFSET_BITS=64', '-std=gnu99',
          '-I', sc.dir, '-I', sc.src, '-I', os.path.join(VERIF, 'harness'), '-I', os.path.join(VERIF, 'contracts'),
          '--function', ob.entry]
    for k, v in ob.defines.items():
        cc.append(f'-D{k}={v}' if v != '' else f'-D{k}')
    cc += [os.path.join(VERIF, 'harness', ob.harness)] + [os.path.join(sc.dir, s) for s in ob.extra_srcs]
    a_gb = os.path.join(wd, 'a.gb')
    rc, out, _ = _run(cc + ['-o', a_gb], 300, 8)
    log.append('$ ' + ' '.join(cc) + '\n' + out)
    if rc != 0:
        res.reason = 'goto-cc failed'
        res.log = '\n'.join(log)
        res.wall = time.time() - t0
        return res
    gb = a_gb
    cmds = [' '.join(cc)]
    if ob.dfcc:
        gi = ['goto-instrument', '--dfcc', ob.entry]
        if ob.enforce:
            gi += ['--enforce-contract', ob.enforce]
        for r in ob.replace:
            gi += ['--replace-call-with-contract', r]
        if ob.loop_contracts:
            gi += ['--apply-loop-contracts']
        b_gb = os.path.join(wd, 'b.gb')
        rc, out, _ = _run(gi + [a_gb, b_gb], 600, 16)
        log.append('$ ' + ' '.join(gi) + '\n' + out[-6000:])
        cmds.append(' '.join(gi) + ' a.gb b.gb')
        if rc != 0:
            res.reason = 'goto-instrument failed'
            res.log = '\n'.join(log)
            res.wall = time.time() - t0
            return res
        for pat in BAD_LOG:
            if re.search(pat, out):
                res.reason = f'goto-instrument log matches /{pat}/'
                res.log = '\n'.join(log)
                res.wall = time.time() - t0
                return res
        gb = b_gb
    if ob.gi_flags and not ob.dfcc:
        g_gb = os.path.join(wd, 'g.gb')
        gi = ['goto-instrument'] + ob.gi_flags
        rc, out, _ = _run(gi + [gb, g_gb], 600, 16)
        log.append('$ ' + ' '.join(gi) + '\n' + out[-3000:])
        cmds.append(' '.join(gi) + ' a.gb g.gb')
        if rc != 0:
            res.reason = 'goto-instrument (extra pass) failed'
            res.log = '\n'.join(log)
            res.wall = time.time() - t0
            return res
        gb = g_gb
    checks = DEFAULT_CHECKS if ob.checks is None else ob.checks
    cb = ['cbmc', gb] + checks + ob.flags + SOLVER_FLAGS[ob.solver] + ['--drop-unused-functions', '--json-ui', '--verbosity', '6']
    if not any(f == '--object-bits' for f in ob.flags):
        cb += ['--object-bits', '12']
    if want_trace:
        cb += ['--trace']
    tmo = int(ob.timeout * TIMEOUT_SCALE)
    rc, out, wall = _run(cb, tmo, ob.mem_gb)
    cmds.append(' '.join(cb).replace(wd + '/', ''))
    res.cmd = ' && '.join(cmds).replace(sc.dir, '$SCRATCH').replace(VERIF, '/verif')
    res.wall = time.time() - t0
    res.solver_time = wall
    if rc == -999:
        res.reason = f'timeout after {tmo}s'
        res.log = '\n'.join(log) + '\n' + out[-3000:]
        return res
    try:
        js = json.loads(out)
    except Exception:
        res.reason = 'cbmc output not JSON (crash / out of memory?) rc=%d' % rc
        res.log = '\n'.join(log) + '\n' + out[-4000:]
        return res
    results = None
    msgs = []
    for item in js:
        if 'result' in item:
            results = item['result']
        if 'messageText' in item:
            msgs.append(item['messageText'])
    alltxt = '\n'.join(msgs)
    log.append('$ ' + ' '.join(cb) + '\n' + alltxt[-3000:])
    res.log = '\n'.join(log)
    for pat in BAD_LOG:
        if re.search(pat, alltxt):
            res.reason = f'cbmc log matches /{pat}/'
            return res
    if results is None:
        res.reason = 'no result list from cbmc: ' + alltxt[-400:]
        return res
    canary_ok = 0
    canary_bad = []
    failed = []
    names = []
    for r in results:
        desc = r.get('description', '')
        nm = r.get('property', '')
        st = r.get('status', '')
        names.append(nm + ' ' + desc)
        if desc.startswith('CANARY'):
            cfile = os.path.basename(str((r.get('sourceLocation') or {}).get('file', '')))
            cfunc = str((r.get('sourceLocation') or {}).get('function', ''))
            required = (cfile == os.path.basename(ob.harness) and cfunc == ob.entry) or any(re.search(c, desc) for c in ob.canaries)
            if st == 'FAILURE':
                if required:
                    canary_ok += 1
            elif required:
                canary_bad.append(desc)
            continue
        if st != 'SUCCESS' and any(re.search(ig, nm + ' ' + desc) for ig in ob.ignore):
            res.ignored.append(nm + ' ' + desc)     # documented out-of-scope check (see Ob.ignore), neither counted nor reported
            continue
        res.n_props += 1
        if st == 'SUCCESS':
            res.n_ok += 1
        else:
            failed.append({'property': nm, 'description': desc, 'status': st,
                           'line': (r.get('sourceLocation') or {}).get('line'),
                           'file': (r.get('sourceLocation') or {}).get('file'),
                           'trace': r.get('trace') if want_trace else None})
    res.canaries = canary_ok
    res.failed = failed
    res.samples = [n for n in names if not n.split(' ', 1)[1].startswith('CANARY')][:3]
    missing = [e for e in ob.expect + ob.canaries if not any(re.search(e, n) for n in names)]
    if failed:
        unk = [f for f in failed if f['status'] not in ('FAILURE',)]
        real = [f for f in failed if f['status'] == 'FAILURE']
        if real:
            # CBMC leaves properties it did not reach as UNKNOWN once some property has failed
            res.failed = failed = real
            res.status = 'fail'
            res.reason = '; '.join(f"{f['property']}: {f['description']}" for f in failed[:4])
        elif unk:
            res.status = 'undecided'
            res.reason = 'properties with status ' + ','.join(sorted(set(f['status'] for f in unk)))
        else:
            res.status = 'fail'
            res.reason = '; '.join(f"{f['property']}: {f['description']}" for f in failed[:4])
        return res
    if res.n_props == 0:
        res.status = 'vacuous'
        res.reason = 'zero obligations generated'
        return res
    if canary_bad or canary_ok == 0:
        res.status = 'vacuous'
        res.reason = 'unreachable canary: ' + '; '.join(canary_bad) if canary_bad else 'harness has no reachability canary'
        return res
    if missing:
        res.status = 'vacuous'
        res.reason = 'expected named obligations missing: ' + ', '.join(missing)
        return res
    res.status = 'pass'
    return res


def run_all(obs: List[Ob], sc: Scratch, jobs=14) -> List[Result]:
    with ThreadPoolExecutor(max_workers=jobs) as ex:
        return list(ex.map(lambda o: build_and_check(o, sc), obs))
