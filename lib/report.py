#!/usr/bin/env python3
"""Classification of obligation results into the property verdict, known-findings
handling, replay generation, evidence and MANIFEST writing."""
import json, os, re, subprocess, sys, time

VERIF = os.path.dirname(os.path.dirname(os.path.abspath(__file__)))
sys.path.insert(0, os.path.join(VERIF, 'lib'))
import engine  # noqa: E402
import replay as replay_mod  # noqa: E402

KNOWN = os.path.join(VERIF, 'known-findings.txt')


def load_known():
    """Lines:  finding: property=<id> ob=<obligation-regex> match=<regex on failing description> :: text
               fixed: property=<id> <commit> <text>        (suppresses nothing)"""
    out = []
    if not os.path.exists(KNOWN):
        return out
    for line in open(KNOWN):
        line = line.strip()
        if not line.startswith('finding:'):
            continue
        m = re.match(r'finding:\s+property=(\S+)\s+ob=(\S+)\s+match=(.+?)\s+::\s+(.*)$', line)
        if m:
            out.append(dict(prop=m.group(1), ob=m.group(2), match=m.group(3), text=m.group(4)))
    return out


def tool_versions():
    v = {}
    for t in ('cbmc', 'goto-instrument'):
        try:
            v[t] = subprocess.run([t, '--version'], stdout=subprocess.PIPE).stdout.decode().strip()
        except Exception:
            v[t] = '?'
    return v


def finish(pid, tier, seed, obs, results, sc, woven, wall, write_evidence=True):
    import obligations
    meta = obligations.PROPS[pid]
    known = [k for k in load_known() if k['prop'] == pid]
    violations = []
    known_hits = []
    undecided = []
    for r in results:
        if r.status == 'fail':
            # split failing sub-obligations into known / new
            new = []
            for f in r.failed:
                hit = None
                for k in known:
                    if re.search(k['ob'], r.ob.name) and re.search(k['match'], f['description'] + ' ' + f['property']):
                        hit = k
                        break
                if hit:
                    known_hits.append((r, f, hit))
                else:
                    new.append(f)
            if new:
                violations.append((r, new))
        elif r.status in ('undecided', 'vacuous'):
            undecided.append(r)

    # replay for new violations
    viol_lines = []
    MAX_REPLAYS = int(os.environ.get('VERIF_MAX_REPLAYS', '3'))
    for vi, (r, new) in enumerate(violations):
        trace = None
        text = r.log
        # counterexample extraction (a second solver run with --trace) and native replay are done for the first MAX_REPLAYS failing
        # obligation groups only; the others still get their VIOLATION line and a replay file with the verifier output
        if vi >= MAX_REPLAYS:
            path, status = replay_mod.write_replay(pid, r.ob, new, None, r.log + '\n(replay not attempted: more than %d obligation groups failed in this run)' % MAX_REPLAYS, r.ob.defines)
            r.replay = path
            names = ', '.join(f"{f['property']} ({f['description']})" for f in new[:2])
            print(f'FAILED-OBLIGATION {r.ob.name}: {names} [native replay: not attempted]')
            viol_lines.append(f'VIOLATION property={pid} replay={path} no-failing-input-found')
            continue
        if r.ob.replayable:
            r2 = engine.build_and_check(r.ob, sc, want_trace=True)
            for f in r2.failed:
                if f.get('trace') and any(f['property'] == n['property'] for n in new):
                    trace = f['trace']
                    break
            text = r2.log
        rob = r.ob
        if not r.ob.replayable and r.ob.twin:
            # contract harness: the counterexample may start in an unreachable invariant state;
            # ask the explicit bounded twin for a concrete input
            tws = [o for o in obligations.all_obligations() if o.name.startswith(r.ob.twin)]
            for tw in tws:
                r2 = engine.build_and_check(tw, sc, want_trace=True)
                for f in r2.failed:
                    if f.get('trace') and not f['description'].startswith('CANARY'):
                        trace = f['trace']
                        rob = tw
                        text = r.log + '\n--- twin ' + tw.name + ' ---\n' + r2.log
                        break
                if trace:
                    break
        path, status = replay_mod.write_replay(pid, rob, new, trace, text, rob.defines)
        r.replay = path
        tail = '' if status == 'reproduced' else ' no-failing-input-found'
        names = ', '.join(f"{f['property']} ({f['description']} @{os.path.basename(str(f.get('file')))}:{f.get('line')})" for f in new[:3])
        print(f'FAILED-OBLIGATION {r.ob.name}: {names} [native replay: {status}]')
        viol_lines.append(f'VIOLATION property={pid} replay={path}{tail}')

    seen = set()
    for r, f, k in known_hits:
        key = (k['text'])
        if key in seen:
            continue
        seen.add(key)
        print(f'KNOWN-FINDING: property={pid} {k["text"]}')

    for r in undecided:
        print(f'UNDECIDED obligation={r.ob.name} status={r.status}: {r.reason}')

    # ---- evidence
    deciding = [r for r in results if r.ob.kind in ('proof', 'complete-unwind', 'lemma')]
    bounded = [r for r in results if r.ob.kind == 'bounded']
    n_ob = sum(r.n_props for r in deciding)
    n_ok = sum(r.n_ok for r in deciding)
    level = meta['level']
    funcs = sorted({f for r in results for f in r.ob.functions})
    trusted = sorted({a for r in results for a in r.ob.assumed} | set(meta.get('trusted', [])))
    per_ob = []
    for r in results:
        per_ob.append({'obligation': r.ob.name, 'kind': r.ob.kind, 'what': r.ob.what, 'status': r.status,
                       'functions': r.ob.functions, 'cbmc_properties': r.n_props, 'discharged': r.n_ok,
                       'reachability_canaries_hit': r.canaries, 'backend': r.ob.solver,
                       'dfcc': {'enforce': r.ob.enforce, 'replace': r.ob.replace, 'loop_contracts': r.ob.loop_contracts},
                       'bound': r.ob.bound, 'wall_s': round(r.wall, 2), 'solver_s': round(r.solver_time, 2),
                       'reason': r.reason, 'defines': r.ob.defines})
    passed = [r for r in results if r.status == 'pass']
    distinct = len({(r.ob.name, json.dumps(r.ob.defines, sort_keys=True)) for r in passed if r.canaries > 0})
    samples = []
    for r in results[:40]:
        samples.append({'obligation': r.ob.name, 'kind': r.ob.kind, 'defines': r.ob.defines,
                        'example_cbmc_properties': r.samples})
    cov = {
        'obligations': n_ob,
        'discharged': n_ok,
        'checker_cmd': (deciding[0].cmd if deciding else (results[0].cmd if results else 'none')),
        'trusted_base': trusted,
        'evaluations': len(results),
        'distinct_nontrivial': distinct,
        'rule': 'one evaluation = one harness instance (obligation group) built from /repo working tree and run through '
                'goto-cc/goto-instrument/cbmc; it is counted distinct and non-trivial when its (name, parameter tuple) is '
                'unique, every generated CBMC property was discharged and its reachability canary (an assert(0) behind '
                'the preconditions, at the end of the function under contract) was hit',
        'samples': samples,
        'functions_under_contract': funcs,
        'per_obligation': per_ob,
        'bounded': [{'obligation': r.ob.name, 'bound': r.ob.bound, 'status': r.status,
                     'cbmc_properties': r.n_props, 'discharged': r.n_ok} for r in bounded],
        'bounded_note': 'bounded stand-ins are NOT included in obligations/discharged',
        'undecided_residue': meta.get('undecided', []),
        'woven_inserts': woven,
        'tools': tool_versions(),
        'known_findings_hit': [k['text'] for _, _, k in known_hits],
    }
    if level == 'proof' and n_ob == 0:
        # nothing deciding ran (e.g. --only): fall back to honest generic keys
        pass
    ev = {
        'property_id': pid, 'tier': tier, 'seed': seed, 'level': level, 'coverage': cov,
        'assumptions': sorted(set(meta.get('assumptions', [])) | set(trusted)),
        'wall_s': round(wall, 2), 'violations': len(viol_lines),
    }
    if write_evidence:
        os.makedirs(os.path.join(VERIF, 'evidence'), exist_ok=True)
        json.dump(ev, open(os.path.join(VERIF, 'evidence', pid + '.json'), 'w'), indent=1)

    tot = sum(r.n_props for r in results)
    ok = sum(r.n_ok for r in results)
    print(f'SUMMARY property={pid} tier={tier} harnesses={len(results)} passed={len(passed)} '
          f'cbmc_properties={tot} discharged={ok} (deciding {n_ok}/{n_ob}; bounded harnesses {len(bounded)}) '
          f'violations={len(viol_lines)} known={len(seen)} undecided={len(undecided)} wall={wall:.1f}s')
    for l in viol_lines:
        print(l)
    if viol_lines:
        return 1
    if undecided:
        return 2
    return 0


def write_manifest(obligations):
    checks = []
    na = []
    have = set(obligations.CLAIMED)
    for pid in sorted(obligations.PROPS):
        m = obligations.PROPS[pid]
        if m.get('not_applicable'):
            na.append({'property_id': pid, 'reason': m['not_applicable']})
            continue
        if pid not in have:
            na.append({'property_id': pid, 'reason': obligations.NOT_BUILT})
            continue
        checks.append({
            'property_id': pid,
            'quick_cmd': f'./check {pid} --tier quick',
            'thorough_cmd': f'./check {pid} --tier thorough',
            'evidence_file': f'/verif/evidence/{pid}.json',
            'replay_cmd_template': './check --replay {path}',
            'engine': 'cbmc-contracts',
            'level_claimed': {'category': m['level'], 'text': m['text'], 'design_ref': m.get('design_ref', '')},
            'level_note': m['note'],
            'technique': m['technique'],
        })
    man = {
        'version': 1,
        'setup_cmd': 'python3 -c "import json,sys; sys.path.insert(0,\'lib\'); import engine, weave, report, replay" && cbmc --version && goto-instrument --version',
        'hooks': {
            'guard': 'KJN_LBZIP2_VERIF',
            'enable': 'none needed: contracts are attached from /verif/contracts (declaration contracts + woven loop contracts) to a scratch copy of /repo/src on every run; harnesses are compiled with -DKJN_LBZIP2_VERIF',
            'baseline_off_cmd': 'cmake -G Ninja -S /repo -B /repo/_build >/dev/null && cmake --build /repo/_build && ctest --test-dir /repo/_build -j8 --timeout 900',
            'source_commits': obligations.HOOK_COMMITS,
            'add_only': True,
        },
        'engines': [{
            'name': 'cbmc-contracts', 'path': '/verif/check',
            'serves_properties': [c['property_id'] for c in checks],
            'kind_free_text': 'CBMC 6.11 code contracts (goto-instrument --dfcc enforce/replace, loop contracts) on the real C sources, '
                              'plus loop-free lemma harnesses and labelled bounded stand-ins',
        }],
        'checks': checks,
        'not_applicable': na,
        'notes': obligations.NOTES,
    }
    json.dump(man, open(os.path.join(VERIF, 'MANIFEST.json'), 'w'), indent=1)
    print('MANIFEST.json written:', len(checks), 'checks,', len(na), 'not applicable')


def write_design_table(obligations):
    """Regenerate the 'what is built' table inside DESIGN.md (between the GENERATED STATUS markers) from the obligation table."""
    import collections
    obs = obligations.all_obligations()
    rows = []
    for pid in sorted(obligations.PROPS):
        m = obligations.PROPS[pid]
        if m.get('not_applicable'):
            rows.append(f'| {pid} | not applicable | - | - | - | {m["not_applicable"][:120]} |')
            continue
        mine = [o for o in obs if pid in o.props]
        def fam(o):
            return re.sub(r'(\.(t|j|fill|as|step|envstep|seq|sub)?\d+[a-z]*|\.M\d+F\d+K\d+N\d+|\.(OM_[A-Z]+\.[dz])|\.(MORE|FINISH|OK|ERR_[A-Z]+)|\.\d+u|\.L\d+W\d+)$', '', o.name)
        kinds = collections.Counter(o.kind for o in mine if o.tier == 'quick')
        kt = collections.Counter(o.kind for o in mine)
        fams = collections.OrderedDict()
        for o in mine:
            fams.setdefault(fam(o), []).append(o)
        famtxt = ', '.join(f'{k}' + (f' x{len(v)}' if len(v) > 1 else '') + f' [{v[0].kind}]' for k, v in fams.items())
        claimed = 'claimed' if pid in obligations.CLAIMED else 'NOT claimed'
        rows.append(f'| {pid} | {claimed} ({m["level"]}) | ' + ' '.join(f'{k}:{kinds[k]}' for k in sorted(kinds)) + ' | ' +
                    ' '.join(f'{k}:{kt[k]}' for k in sorted(kt)) + f' | {famtxt} | ' + '; '.join(m.get('undecided', []))[:200] + ' |')
    table = ('| property | manifest | quick obligations by kind | all (incl. thorough) | obligation families [kind] | undecided residue (see section 4) |\n'
             '|---|---|---|---|---|---|\n' + '\n'.join(rows) + '\n')
    path = os.path.join(VERIF, 'DESIGN.md')
    txt = open(path).read()
    a, b = '<!-- BEGIN GENERATED STATUS -->', '<!-- END GENERATED STATUS -->'
    if a in txt and b in txt:
        txt = txt[:txt.index(a) + len(a)] + '\n' + table + txt[txt.index(b):]
        open(path, 'w').write(txt)
        print('DESIGN.md status table regenerated:', len(rows), 'rows')
    else:
        print(table)
