#!/bin/bash
# verify_seed.sh <worktree> <demo-cmd-with-%B-for-binary-or-%T-for-tree>
# confirms: builds, ctest passes with the change, demo fails with the change and passes on pristine /repo build
wt=$1; demo=$2
cd $wt || exit 9
cmake -G Ninja -B _build >/dev/null 2>&1; cmake --build _build 2>&1 | tail -1
ctest --test-dir _build -j8 --timeout 900 2>&1 | grep -E "tests passed|tests failed"
c=${demo//%B/$wt/_build/lbzip2}; c=${c//%T/$wt}
( cd seed_out && eval "$c" >/dev/null 2>&1 ); echo "demo with change: exit $?"
c=${demo//%B//repo/_build/lbzip2}; c=${c//%T//repo}
( cd seed_out && eval "$c" >/dev/null 2>&1 ); echo "demo pristine: exit $?"
