#!/usr/bin/env python3
"""Bit-level bzip2 stream writer used by stream-level replays: turns a verifier
counterexample into a .bz2 file, runs a fresh build of the real lbzip2 on it and
compares with the reference decoder (python bz2 = libbz2)."""
import bz2, os, subprocess, tempfile

REPO = os.environ.get('VERIF_REPO', '/repo')


def crc32_bz(data):
    crc = 0xFFFFFFFF
    for b in data:
        crc ^= b << 24
        for _ in range(8):
            crc = ((crc << 1) ^ 0x04C11DB7) & 0xFFFFFFFF if crc & 0x80000000 else (crc << 1) & 0xFFFFFFFF
    return crc ^ 0xFFFFFFFF


class Bits:
    def __init__(self):
        self.s = []

    def put(self, n, v):
        for i in range(n - 1, -1, -1):
            self.s.append((v >> i) & 1)

    def puts(self, bits):
        for c in bits:
            self.s.append(1 if c == '1' else 0)

    def bytes(self):
        s = self.s + [0] * (-len(self.s) % 8)
        return bytes(int(''.join(map(str, s[i:i + 8])), 2) for i in range(0, len(s), 8))


def plain_table(lengths):
    """start value + one-step-at-a-time deltas, the canonical encoding"""
    out = format(lengths[0], '05b')
    cur = lengths[0]
    for l in lengths:
        while cur < l:
            out += '10'; cur += 1
        while cur > l:
            out += '11'; cur -= 1
        out += '0'
    return out


def delta_stream(len0, win):
    """One block containing the single byte 'a'; table 0 codes symbol 0 with the 5-bit start
    value len0 followed by the 6-bit window win (then whatever terminates it); all final code
    lengths form a complete code, so the stream is valid iff every intermediate length is in 1..20."""
    # what lbzip2's tables make of the window (sum of the pairs, no intermediate check)
    cur = len0
    pos = 0
    term = False
    while pos < 6:
        if ((win >> (5 - pos)) & 1) == 0:
            pos += 1; term = True
            break
        cur += -1 if ((win >> (4 - pos)) & 1) else 1
        pos += 2
    c = cur
    if not (1 <= c <= 20):
        return None, 'final length %d out of range: every decoder rejects' % c
    winbits = format(win, '06b')[:pos] + ('' if term else '0')
    if c == 1:
        lengths = [1, 2, 2]
    else:
        lengths = [c, c] + list(range(c - 1, 0, -1))
    n = len(lengths)                      # alphabet size = bytes in use + 2
    inuse = n - 2
    t0 = format(len0, '05b') + winbits
    curl = c
    for l in lengths[1:]:
        while curl < l:
            t0 += '10'; curl += 1
        while curl > l:
            t0 += '11'; curl -= 1
        t0 += '0'
    t1 = plain_table(lengths)
    # canonical codes
    order = sorted(range(n), key=lambda i: (lengths[i], i))
    code = 0
    prev = lengths[order[0]]
    codes = {}
    for i in order:
        code <<= (lengths[i] - prev)
        prev = lengths[i]
        codes[i] = format(code, '0%db' % lengths[i])
        code += 1
    data = b'a'
    b = Bits()
    b.puts(format(0x425A6839, '032b'))
    b.put(48, 0x314159265359)
    b.put(32, crc32_bz(data))
    b.put(1, 0)
    b.put(24, 0)
    # bitmap: bytes 'a'.. 'a'+inuse-1 in use (0x61..), all inside rows 6 and 7
    used = [0x61 + i for i in range(inuse)]
    rows = sorted({u >> 4 for u in used})
    big = 0
    for r in rows:
        big |= 1 << (15 - r)
    b.put(16, big)
    for r in rows:
        small = 0
        for u in used:
            if u >> 4 == r:
                small |= 1 << (15 - (u & 15))
        b.put(16, small)
    b.put(3, 2)
    b.put(15, 1)
    b.puts('0')                            # selector 0 -> table 0
    b.puts(t0)
    b.puts(t1)
    b.puts(codes[0])                       # RUNA: one 'a'
    b.puts(codes[n - 1])                   # EOB
    b.put(48, 0x177245385090)
    b.put(32, crc32_bz(data))              # combined crc of a single block = its crc
    return b.bytes(), 'len0=%d window=%s' % (len0, format(win, '06b'))


def build_lbzip2(outdir):
    exe = os.path.join(outdir, 'lbzip2.replay')
    srcs = [os.path.join(REPO, 'src', f) for f in sorted(os.listdir(os.path.join(REPO, 'src'))) if f.endswith('.c')]
    cmd = ['gcc', '-std=gnu99', '-O1', '-w', '-pthread', '-D_XOPEN_SOURCE=700', '-D_FILE_OFFSET_BITS=64',
           '-DPACKAGE_NAME="lbzip2"', '-DPACKAGE_VERSION="devel"'] + srcs + ['-o', exe]
    p = subprocess.run(cmd, stdout=subprocess.PIPE, stderr=subprocess.STDOUT)
    if p.returncode != 0:
        return None, p.stdout.decode('utf-8', 'replace')
    return exe, ''


def run_stream(stream, outdir, expect_valid=False):
    """Returns dict with lbzip2 exit status/output and the reference decoder's verdict."""
    path = os.path.join(outdir, 'replay.bz2')
    open(path, 'wb').write(stream)
    try:
        ref = bz2.decompress(stream)
        ref_ok = True
    except Exception as e:
        ref, ref_ok = repr(e), False
    with tempfile.TemporaryDirectory() as td:
        exe, err = build_lbzip2(td)
        if exe is None:
            return {'error': 'build failed: ' + err[-500:]}
        p = subprocess.run([exe, '-d', '-c', '-n', '2'], input=stream, stdout=subprocess.PIPE, stderr=subprocess.PIPE, timeout=60)
    return {'file': path, 'hex': stream.hex(), 'lbzip2_exit': p.returncode, 'lbzip2_stdout': p.stdout[:200].decode('latin-1'),
            'lbzip2_stderr': p.stderr.decode('utf-8', 'replace')[:300], 'reference_accepts': ref_ok,
            'reference_result': ref.decode('latin-1') if ref_ok else ref}


def replay_delta(values, outdir):
    len0 = int(str(values.get('len0', '0')).rstrip('uUlL'))
    # the window is the top 6 bits of the logical bit stream: buffered bits then the big-endian word
    live = int(str(values.get('live', '0')).rstrip('uUlL'))
    buff = int(str(values.get('buff', '0')).rstrip('uUlL'))
    word = int(str(values.get('word', '0')).rstrip('uUlL'))
    be = int.from_bytes(word.to_bytes(4, 'little'), 'big')
    v = (buff | (be << (32 - live))) & ((1 << 64) - 1) if live <= 32 else buff
    win = (v >> 58) & 63
    stream, note = delta_stream(len0, win)
    if stream is None:
        return {'note': note}, 'no-input'
    r = run_stream(stream, outdir)
    r['note'] = note
    if 'error' in r:
        return r, 'build-failed'
    if r['lbzip2_exit'] == 0 and not r['reference_accepts']:
        return r, 'reproduced'
    if r['lbzip2_exit'] != 0 and r['reference_accepts']:
        return r, 'reproduced'
    return r, 'not-reproduced'


STREAM_REPLAYS = {'delta': replay_delta}


def _int(v):
    s = str(v).strip()
    for suf in ('ull', 'ul', 'll', 'u', 'l', 'ULL', 'UL', 'LL', 'U', 'L'):
        if s.endswith(suf):
            s = s[:-len(suf)]
            break
    try:
        return int(s, 0)
    except ValueError:
        return 0


def replay_cdf(values, outdir):
    """work(): counterexample = the bytes the sniffing read delivered.  Feed them (plus a tail when all four
    were read) to the real binary with -cdf: input that does not begin with BZh1-9 must come out unchanged."""
    hdr = _int(values.get('g_work_hdr', 0)) & 0xFFFFFFFF
    vac = _int(values.get('g_work_vacant', 0))
    if vac > 4:
        return {'note': 'no sniffing read in the counterexample'}, 'no-input'
    data = hdr.to_bytes(4, 'little')[:4 - vac]
    if vac == 0:
        data += b'tail-bytes-after-the-header\n'
    is_hdr = vac == 0 and data[:3] == b'BZh' and 0x31 <= data[3] <= 0x39
    with tempfile.TemporaryDirectory() as td:
        exe, err = build_lbzip2(td)
        if exe is None:
            return {'error': 'build failed: ' + err[-500:]}, 'build-failed'
        p = subprocess.run([exe, '-c', '-d', '-f', '-n', '2'], input=data, stdout=subprocess.PIPE, stderr=subprocess.PIPE, timeout=60)
    open(os.path.join(outdir, 'replay.input'), 'wb').write(data)
    r = {'input_hex': data.hex(), 'begins_with_BZh1_9': is_hdr, 'lbzip2_exit': p.returncode, 'stdout_hex': p.stdout[:64].hex(),
         'stderr': p.stderr.decode('utf-8', 'replace')[:200]}
    if not is_hdr and (p.returncode != 0 or p.stdout != data):
        return r, 'reproduced'
    if is_hdr and p.returncode == 0 and p.stdout == data:
        return r, 'reproduced'
    return r, 'not-reproduced'


STREAM_REPLAYS['cdf'] = replay_cdf
