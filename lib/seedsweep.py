#!/usr/bin/env python3
"""Development aid (not a registered check): apply each seeded change under /verif/seeded to /repo,
run the quick check of the property it breaks, undo the change, and record in meta.json which
obligations fired.  Usage: lib/seedsweep.py [name-regex] [--tier quick|thorough] [--props C05,C06]"""
import json, os, re, subprocess, sys

VERIF = os.path.dirname(os.path.dirname(os.path.abspath(__file__)))
REPO = '/repo'


def sh(cmd, **kw):
    return subprocess.run(cmd, shell=True, stdout=subprocess.PIPE, stderr=subprocess.STDOUT, **kw)


def main():
    args = [a for a in sys.argv[1:] if not a.startswith('--')]
    pat = args[0] if args else '.'
    tier = 'quick'
    props_override = None
    for i, a in enumerate(sys.argv):
        if a == '--tier':
            tier = sys.argv[i + 1]
        if a == '--props':
            props_override = sys.argv[i + 1].split(',')
    if sh(f'git -C {REPO} status --porcelain --untracked-files=no').stdout.strip():
        print('refusing: /repo has uncommitted changes')
        return 2
    rows = []
    for d in sorted(os.listdir(os.path.join(VERIF, 'seeded'))):
        if not re.search(pat, d):
            continue
        sd = os.path.join(VERIF, 'seeded', d)
        mp = os.path.join(sd, 'meta.json')
        if not os.path.exists(mp):
            continue
        meta = json.load(open(mp))
        props = props_override or [meta['property']]
        r = sh(f'git -C {REPO} apply {sd}/patch.diff')
        if r.returncode != 0:
            print(d, 'PATCH DOES NOT APPLY', r.stdout.decode()[:300])
            continue
        try:
            det = {}
            for p in props:
                q = sh(f'{VERIF}/check {p} --tier {tier} --no-evidence', cwd=VERIF)
                out = q.stdout.decode('utf-8', 'replace')
                fired = re.findall(r'^FAILED-OBLIGATION (\S+): (.*)$', out, re.M)
                und = re.findall(r'^UNDECIDED (.*)$', out, re.M)
                viol = re.findall(r'^VIOLATION .*$', out, re.M)
                det[p] = {'rc': q.returncode, 'violations': viol, 'fired': [f'{a}: {b[:300]}' for a, b in fired], 'undecided': und[:5]}
                rows.append((d, p, q.returncode, '; '.join(a for a, _ in fired) or ('UNDECIDED ' + '; '.join(und)[:200] if und else '-')))
                print(f'{d:45s} {p} rc={q.returncode} ' + rows[-1][3], flush=True)
        finally:
            sh(f'git -C {REPO} checkout -- .')
        if not props_override:
            meta['detected_by'] = det
            json.dump(meta, open(mp, 'w'), indent=1)
    return 0


if __name__ == '__main__':
    sys.exit(main())
