#!/usr/bin/env python3
"""Development aid (not a registered check): for each seeded change under /verif/seeded, copy /repo (sources only) to a
scratch directory, apply the change there, run the quick check of the property it breaks against that copy
(VERIF_REPO=<copy>), delete the copy, and record in meta.json which obligations fired.  /repo itself is never touched, so
other checks can run meanwhile.  Equivalent to `git -C /repo apply <patch>; ./check <prop>; git -C /repo checkout -- .`.

Usage: lib/seedsweep.py [name-regex] [--tier quick|thorough] [--props C05,C06] [--par N] [--matrix]"""
import json, os, re, shutil, subprocess, sys, tempfile
from concurrent.futures import ThreadPoolExecutor

VERIF = os.path.dirname(os.path.dirname(os.path.abspath(__file__)))
REPO = '/repo'
# checks are run from a snapshot of the committed /verif when VERIF_SNAP names one (so that edits in /verif do not disturb a long sweep);
# seeds are read from, and results written to, the live /verif/seeded
SNAP = os.environ.get('VERIF_SNAP', VERIF)


def sh(cmd, **kw):
    return subprocess.run(cmd, shell=True, stdout=subprocess.PIPE, stderr=subprocess.STDOUT, **kw)


def one(d, tier, props_override, jobs):
    sd = os.path.join(VERIF, 'seeded', d)
    mp = os.path.join(sd, 'meta.json')
    meta = json.load(open(mp))
    props = props_override or [meta['property']]
    tmp = tempfile.mkdtemp(prefix='seedrepo.')
    try:
        sh(f'rsync -a --exclude _build --exclude .git {REPO}/ {tmp}/')
        r = sh(f'patch -p1 -s -d {tmp} < {sd}/patch.diff')
        if r.returncode != 0:
            return d, None, 'PATCH DOES NOT APPLY ' + r.stdout.decode()[:200]
        det = {}
        line = []
        for p in props:
            env = dict(os.environ, VERIF_REPO=tmp)
            q = subprocess.run(f'{SNAP}/check {p} --tier {tier} --no-evidence --jobs {jobs}', shell=True, cwd=SNAP, env=env,
                               stdout=subprocess.PIPE, stderr=subprocess.STDOUT)
            out = q.stdout.decode('utf-8', 'replace')
            fired = re.findall(r'^FAILED-OBLIGATION (\S+): (.*)$', out, re.M)
            und = re.findall(r'^UNDECIDED (.*)$', out, re.M)
            viol = re.findall(r'^VIOLATION .*$', out, re.M)
            det[p] = {'rc': q.returncode, 'violations': [v.replace(tmp, '/repo') for v in viol],
                      'fired': [f'{a}: {b[:300]}'.replace(tmp, '/repo') for a, b in fired], 'undecided': [u[:200] for u in und[:5]]}
            line.append(f'{p} rc={q.returncode} ' + ('; '.join(a for a, _ in fired) or ('UNDECIDED ' + '; '.join(und)[:160] if und else '-')))
        if not props_override:
            meta['detected_by'] = det
            json.dump(meta, open(mp, 'w'), indent=1)
        return d, det, ' | '.join(line)
    finally:
        shutil.rmtree(tmp, ignore_errors=True)


def matrix():
    rows = ['| seeded change | property | needs to manifest | caught by (quick check of that property) |', '|---|---|---|---|']
    for d in sorted(os.listdir(os.path.join(VERIF, 'seeded'))):
        mp = os.path.join(VERIF, 'seeded', d, 'meta.json')
        if not os.path.exists(mp):
            continue
        m = json.load(open(mp))
        det = m.get('detected_by')
        if not isinstance(det, dict):
            got = 'not run yet'
        else:
            parts = []
            for p, r in det.items():
                if r['rc'] == 1:
                    parts.append(', '.join(sorted({f.split(':')[0] for f in r['fired']})))
                elif r['rc'] == 2:
                    parts.append('undecided (' + '; '.join(r['undecided'])[:80] + ')')
                else:
                    parts.append('**missed**')
            got = '; '.join(parts)
        rows.append(f"| {d} | {m['property']} | {m.get('needs_to_manifest', '')[:110]} | {got} |")
    txt = '\n'.join(rows) + '\n'
    path = os.path.join(VERIF, 'DESIGN.md')
    s = open(path).read()
    a, b = '<!-- BEGIN SEED MATRIX -->', '<!-- END SEED MATRIX -->'
    if a in s and b in s:
        s = s[:s.index(a) + len(a)] + '\n' + txt + s[s.index(b):]
        open(path, 'w').write(s)
        print('seed matrix written to DESIGN.md')
    else:
        print(txt)


def main():
    args = [a for a in sys.argv[1:] if not a.startswith('--')]
    if '--matrix' in sys.argv:
        matrix()
        return 0
    tier, props_override, par = 'quick', None, 2
    skip = set()
    for i, a in enumerate(sys.argv):
        if a == '--tier':
            tier = sys.argv[i + 1]; skip.add(sys.argv[i + 1])
        if a == '--props':
            props_override = sys.argv[i + 1].split(','); skip.add(sys.argv[i + 1])
        if a == '--par':
            par = int(sys.argv[i + 1]); skip.add(sys.argv[i + 1])
    args = [a for a in args if a not in skip]
    pat = args[0] if args else '.'
    names = [d for d in sorted(os.listdir(os.path.join(VERIF, 'seeded')))
             if re.search(pat, d) and os.path.exists(os.path.join(VERIF, 'seeded', d, 'meta.json'))]
    jobs = max(2, 14 // par)
    with ThreadPoolExecutor(max_workers=par) as ex:
        for d, det, line in ex.map(lambda n: one(n, tier, props_override, jobs), names):
            print(f'{d:45s} {line}', flush=True)
    return 0


if __name__ == '__main__':
    sys.exit(main())
