#!/usr/bin/env python3
"""Counterexample replay: turn a CBMC trace of an explicit-style harness into a
native program that includes the UNWOVEN /repo/src text and re-checks the same
obligation with gcc + ASan/UBSan."""
import json, os, re, subprocess, sys

VERIF = os.path.dirname(os.path.dirname(os.path.abspath(__file__)))
REPO = os.environ.get('VERIF_REPO', '/repo')


def harness_inputs(harness_path):
    txt = open(harness_path).read()
    scal = re.findall(r'V_IN\(\s*([^,]+?)\s*,\s*(\w+)\s*\)', txt)
    arrs = re.findall(r'V_IN_ARR\(\s*([^,]+?)\s*,\s*(\w+)\s*,\s*([^)]+?)\s*\)', txt)
    return scal, arrs


def _val(step):
    v = step.get('value', {})
    if 'data' in v:
        return v['data']
    if 'elements' in v:
        return '{' + ', '.join(_val({'value': e['value']}) for e in v['elements']) + '}'
    if 'members' in v:
        return '{' + ', '.join(_val({'value': m['value']}) for m in v['members']) + '}'
    return None


def extract_values(trace, harness_path):
    scal, arrs = harness_inputs(harness_path)
    want = {n for _, n in scal}
    wanta = {n for _, n, _ in arrs}
    vals = {}
    avals = {}
    for st in trace or []:
        if st.get('stepType') != 'assignment':
            continue
        lhs = st.get('lhs', '')
        if lhs in want:
            v = _val(st)
            if v is not None:
                vals[lhs] = v
        elif lhs.endswith('_nd') and lhs[:-3] in wanta:
            v = st.get('value', {})
            try:
                els = v['members'][0]['value']['elements']
                avals[lhs[:-3]] = {'whole': '{' + ', '.join(c_literal(e['value'].get('data', 0)) for e in els) + '}'}
            except Exception:
                pass
        else:
            m = re.match(r'(\w+)\[(\d+)[lLuU]*\]$', lhs)
            if m and m.group(1) in wanta:
                v = _val(st)
                if v is not None:
                    avals.setdefault(m.group(1), {})[int(m.group(2))] = v
    return vals, avals, scal, arrs


def c_literal(v, ctype=''):
    v = str(v)
    if v in ('TRUE', 'true'):
        return '1'
    if v in ('FALSE', 'false'):
        return '0'
    v = re.sub(r'[uUlL]+$', '', v)
    if re.match(r'^-?\d+$', v):
        return v + ('ull' if not v.startswith('-') else 'll')
    return v


def write_replay(pid, ob, failed, trace, verifier_text, defines):
    """Returns (path, native_status) where native_status in reproduced|not-reproduced|no-input|build-failed."""
    rdir = os.path.join(VERIF, 'replay', pid, re.sub(r'[^A-Za-z0-9_.-]', '_', ob.name))
    os.makedirs(rdir, exist_ok=True)
    harness_path = os.path.join(VERIF, 'harness', ob.harness)
    info = {'property': pid, 'obligation': ob.name, 'harness': ob.harness, 'entry': ob.entry,
            'failed_obligations': [{k: f[k] for k in ('property', 'description', 'line', 'file')} for f in failed],
            'defines': defines, 'extra_srcs': ob.extra_srcs, 'kind': ob.kind,
            'verifier_output': verifier_text[-6000:]}
    status = 'no-input'
    if ob.replayable and trace and ob.stream_replay:
        import streamgen
        vals, avals, scal, arrs = extract_values(trace, harness_path)
        for st in trace or []:
            if st.get('stepType') == 'assignment' and st.get('lhs') in ob.trace_vars:
                v = _val(st)
                if v is not None:
                    vals[st['lhs']] = v
        info['values'] = vals
        try:
            sr, status = streamgen.STREAM_REPLAYS[ob.stream_replay](vals, rdir)
        except Exception as e:  # replay machinery failure is never a verdict
            sr, status = {'error': repr(e)}, 'build-failed'
        info['stream_replay'] = sr
    elif ob.replayable and trace:
        vals, avals, scal, arrs = extract_values(trace, harness_path)
        lines = ['/* generated from the CBMC counterexample */']
        for _, n in scal:
            lines.append(f'#define VAL_{n} {c_literal(vals.get(n, 0))}')
        for _, n, sz in arrs:
            av = avals.get(n, {})
            if 'whole' in av and len(av) == 1:
                lines.append(f'#define VAL_{n} {av["whole"]}')
            else:
                idx = [k for k in av if isinstance(k, int)]
                top = max(idx) + 1 if idx else 1
                base = None
                if 'whole' in av:
                    base = [x.strip() for x in av['whole'].strip('{}').split(',')]
                    top = max(top, len(base))
                el = []
                for i in range(top):
                    if i in av:
                        el.append(c_literal(av[i]))
                    elif base and i < len(base):
                        el.append(c_literal(base[i]))
                    else:
                        el.append('0')
                lines.append(f'#define VAL_{n} {{' + ', '.join(el) + '}')
        open(os.path.join(rdir, 'replay_vals.h'), 'w').write('\n'.join(lines) + '\n')
        info['values'] = {**vals, **{k: str(v) for k, v in avals.items()}}
        info['native_cmd'] = native_cmd(rdir, ob, defines)
        rc, out = run_native(rdir, ob, defines)
        info['native_rc'] = rc
        info['native_output'] = out[-3000:]
        if rc == 1 and 'REPLAY-FAIL' in out:
            status = 'reproduced'
        elif rc == -1:
            status = 'build-failed'
        elif rc != 0 and ('AddressSanitizer' in out or 'runtime error' in out or rc < 0 or rc >= 128 or 'Assertion' in out):
            status = 'reproduced'
        else:
            status = 'not-reproduced'
    info['native_status'] = status
    path = os.path.join(rdir, 'replay.json')
    json.dump(info, open(path, 'w'), indent=1)
    return path, status


def native_cmd(rdir, ob, defines):
    cmd = ['gcc', '-std=gnu99', '-g', '-O0', '-w', '-fsanitize=address,undefined', '-fno-sanitize-recover=undefined',
           '-DVERIF_REPLAY', f'-DHARNESS={ob.entry}', '-DPACKAGE_NAME="lbzip2"', '-DPACKAGE_VERSION="devel"',
           '-D_XOPEN_SOURCE=700', '-D_FILE_OFFSET_BITS=64',
           '-I', rdir, '-I', REPO, '-I', os.path.join(REPO, 'src'), '-I', os.path.join(VERIF, 'harness'),
           '-I', os.path.join(VERIF, 'contracts')]
    for k, v in (defines or {}).items():
        cmd.append(f'-D{k}={v}' if v != '' else f'-D{k}')
    cmd += [os.path.join(VERIF, 'harness', ob.harness)] + [os.path.join(REPO, s) for s in ob.extra_srcs]
    cmd += ['-o', os.path.join(rdir, 'replay.bin'), '-lpthread']
    return cmd


def run_native(rdir, ob, defines):
    cmd = native_cmd(rdir, ob, defines)
    p = subprocess.run(cmd, stdout=subprocess.PIPE, stderr=subprocess.STDOUT)
    if p.returncode != 0:
        return -1, 'BUILD FAILED\n' + p.stdout.decode('utf-8', 'replace')
    try:
        q = subprocess.run([os.path.join(rdir, 'replay.bin')], stdout=subprocess.PIPE, stderr=subprocess.STDOUT, timeout=120)
        return q.returncode, q.stdout.decode('utf-8', 'replace')
    except subprocess.TimeoutExpired:
        return 124, 'native replay timed out'
    finally:
        try:
            os.unlink(os.path.join(rdir, 'replay.bin'))
        except OSError:
            pass


def run_replay_file(path):
    info = json.load(open(path))
    print(json.dumps({k: info[k] for k in ('property', 'obligation', 'failed_obligations', 'native_status') if k in info}, indent=1))
    if 'native_cmd' not in info:
        print('no concrete input: verifier output follows\n' + info.get('verifier_output', ''))
        return 1
    rdir = os.path.dirname(path)
    p = subprocess.run(info['native_cmd'], stdout=subprocess.PIPE, stderr=subprocess.STDOUT)
    if p.returncode != 0:
        print(p.stdout.decode())
        return 2
    q = subprocess.run([os.path.join(rdir, 'replay.bin')], stdout=subprocess.PIPE, stderr=subprocess.STDOUT)
    print(q.stdout.decode('utf-8', 'replace'))
    return 1 if q.returncode != 0 else 0
