#!/bin/bash
# adopt_seed.sh <tag> <property> <seed-name> "<demo command with %B for the lbzip2 binary>" "<needs to manifest>"
# Confirms a sub-agent's change in a fresh scratch worktree (builds, full ctest passes with it, demo fails with it and passes
# on the pristine build) and, if confirmed, stores it under /verif/seeded/<seed-name>/.
tag=$1; prop=$2; name=$3; demo=$4; needs=$5
src=/tmp/seed_out/$tag; wt=/tmp/wtv_$tag
git -C /repo worktree add --detach $wt HEAD >/dev/null 2>&1 || exit 9
( cd $wt && patch -p1 -s < $src/patch.diff ) || { echo "patch failed"; git -C /repo worktree remove --force $wt; exit 8; }
cmake -G Ninja -S $wt -B $wt/_build >/dev/null 2>&1; b=$(cmake --build $wt/_build 2>&1 | tail -1)
t=$(ctest --test-dir $wt/_build -j8 --timeout 900 2>&1 | grep -E "tests passed|tests failed")
mkdir -p /tmp/seedrun_$tag; cd /tmp/seedrun_$tag; cp -r $src/* .
c=${demo//%B/$wt/_build/lbzip2}; c=${c//%T/$wt}; eval "$c" >/dev/null 2>&1; r1=$?
c=${demo//%B//repo/_build/lbzip2}; c=${c//%T//repo}; eval "$c" >/dev/null 2>&1; r0=$?
cd /; rm -rf /tmp/seedrun_$tag; git -C /repo worktree remove --force $wt
echo "build: $b | ctest: $t | demo with change: exit $r1 | demo pristine: exit $r0"
if [[ "$t" == *"100% tests passed"* && $r1 -ne 0 && $r0 -eq 0 ]]; then
  mkdir -p /verif/seeded/$name; cp -r $src/* /verif/seeded/$name/; rm -f /verif/seeded/$name/prompt*.txt
  python3 - "$prop" "$name" "$needs" "$demo" "$t" "$r1" "$r0" <<'P'
import json,sys
prop,name,needs,demo,t,r1,r0=sys.argv[1:8]
json.dump({'property':prop,'name':name,'needs_to_manifest':needs,
 'confirmed':f'lib/adopt_seed.sh in a fresh scratch worktree: builds, ctest "{t}" with the change; demo `{demo}` exits {r1} with the change and {r0} on the pristine /repo build; worktree removed',
 'origin':'independent sub-agent given only the property text and its own worktree','detected_by':'(filled in when checks are run against it)'},
 open(f'/verif/seeded/{name}/meta.json','w'),indent=1)
P
  echo "ADOPTED $name"
else
  echo "NOT CONFIRMED $name"
fi
