#!/usr/bin/env python3
"""Obligation table: which harness instances decide which property."""
import os, sys
sys.path.insert(0, os.path.join(os.path.dirname(os.path.abspath(__file__)), 'lib'))
from engine import Ob  # noqa: E402

HOOK_COMMITS = []
NOTES = ('Technique family: contract-based deductive verification of the real C code with CBMC 6.11 '
         '(function contracts via goto-instrument --dfcc, loop contracts, lemma harnesses); bounded stand-ins '
         'are labelled bounded in every evidence file and never counted as discharged proof obligations. '
         'See DESIGN.md.')

NOT_BUILT = 'check not built yet in this round (planned in DESIGN.md §4); not claimed until its obligations run'

PROPS = {}
# properties whose checks are built and registered in MANIFEST.json
CLAIMED = ['C01', 'C02', 'C03', 'C04', 'C05', 'C06', 'C07', 'C08', 'C09', 'C10', 'C11', 'C12', 'C14', 'C15', 'C16', 'C17', 'C18', 'C19', 'C21', 'C22']


def prop(pid, **kw):
    PROPS[pid] = kw


prop('C13', not_applicable='the observable is resident set size of a running process; no function contract can express '
     'RSS (allocator, thread stacks, page residency) and a contract-level surrogate would decide a different '
     'statement (DESIGN.md §6)')

PCHAIN = 'Trusted: CBMC 6.11 + SAT/SMT back ends, goto-cc C semantics (LP64 little-endian), the weaver strip-check, assumed libc/POSIX contracts listed in the evidence. '

prop('C01', level='model_checking',
     text='Round-trip is cut at stage boundaries, each stage checked on the real function at small sizes (bounded): RLE1 encoder (collect() one-step conformance from every saved state, whole runs on concrete patterns, final flush) and decoder (emit() one call from every saved state) against the same run-length rule; MTF/zero-run encoder (do_mtf()) against the inverse written from the format; inverse BWT (decode()) against a naive rotation-sort BWT. The block-ordering glue between stages (position chaining, reorder, xwrite) is proved. Not built: divbwt(), prefix coding (generate_prefix_code/transmit vs retrieve), inverse MTF (mtf_one).',
     note=PCHAIN + 'Whole-pipeline inverse for unbounded input is not one contract; blocks beyond the bounds, divbwt and transmit/retrieve bit agreement are undecided.',
     technique='bounded CBMC checks of the real RLE stage functions against the format rule + contracts on the ordering glue',
     undecided=['whole-pipeline inverse for blocks beyond the stage bounds', 'divbwt() (block sorting): no obligation built', 'transmit()/retrieve() bit-level agreement', 'generate_prefix_code() clustering'])
prop('C02', level='proof',
     text='Framing proved (header digit, trailer bytes, combined-CRC recurrence, block order). Per-block facts as lemmas on code extracted verbatim from encode.c: the dummy second table is complete with lengths 1..20 for EVERY alphabet size 3..258; padding gives whole bytes with <= 3 delta steps and <= 1 extra selector (<= 18002 selectors); the first-length padding keeps the start value in 1..20; selector MTF trick correct for all 720 lists. Block capacity from the collect() step instances and the final-flush section (bounded).',
     note=PCHAIN + 'libbz2 is not linked into the verifier; per-block table completeness for multi-table blocks only bounded.',
     technique='CBMC function contracts + exhaustive lemma harnesses on sections of the real encoder extracted on every run',
     undecided=['libbz2 decoding of the produced stream (needs C01 in full)', 'completeness and 1..20 range of multi-table codes (assign_codes/package_merge: symbolic run exhausts 16 GB)', 'bwt_idx < nblock (divbwt not covered)', 'transmit() bit layout beyond the first-length section'])
prop('C03', level='proof',
     text='Determinism is decomposed into scheduler-free contracts: xread always fills a chunk, xwrite writes every byte in order, chunk n gets position (n,0), '
          'work blocks are chained by next, do_reorder only emits the block whose position equals order.',
     note=PCHAIN + 'Sequential determinism of encode()/transmit() given no uninitialised reads is assumed; single reader/writer thread assumed from init_io.',
     technique='CBMC function + loop contracts with POSIX stubs returning every allowed outcome; monitor-invariant harnesses', design_ref='§4 C03',
     undecided=['sequential determinism of encode()/transmit() (assumed: no uninitialised reads)', 'single reader / single writer thread (from init_io, not an obligation)'])
prop('C04', level='model_checking',
     text='One-step conformance of the real collect() against the greedy packing rule written from the property, from every representable (capacity, fill, run-state) '
          'for small capacities with symbolic input bytes (bounded); encode() final flush and the chunking glue are proved.',
     note=PCHAIN + 'collect() is a goto-built state machine that admits no loop contracts; composition of steps beyond the bound is a paper induction.',
     technique='bounded CBMC checks of real collect() from enumerated start states + contracts on the glue', design_ref='§4 C04',
     undecided=['composition of n one-byte steps into one n-byte call beyond 3 bytes (paper induction)', 'encode() final flush of a pending run (not extracted yet)'])
prop('C05', level='proof',
     text='parse() is proved against a reference stream automaton for unbounded input (magic, CRC fields, trailing-garbage rule, EOF); do_parse/do_reorder error routing, declared-size and CRC checks proved per task; code-length deltas, selector codes, selector bound and the end-of-block checks (empty block, primary index) are lemmas / bounded sections of the real retrieve(); make_tree Kraft test bounded (alphabets <= 6/12); emit() ERR_RUNLEN and byte-exactness per call from every saved state (bounded).',
     note=PCHAIN + 'retrieve()/emit() byte-exactness beyond the bounds is undecided.',
     technique='CBMC function/loop contracts with a ghost reference automaton + exhaustive table lemmas + bounded sections of the retrieve()/emit() coroutines',
     undecided=['retrieve() prefix decoding and run expansion beyond the end-of-block section', 'make_tree() table construction after the Kraft test; Kraft test for alphabets > 12', 'mtf_one(): no discharged obligation (SAT and z3 time out)', 'ERR_OVERFLOW check at real block sizes'])
prop('C06', level='model_checking',
     text='Accepting direction of the parse() contract (every legal header/trailer sequence at any bit offset, proved); every 6-bit delta and selector window accepted exactly when the strict format accepts it (lemmas); surplus selectors up to 32767 stored in bounds and cut to 18001; complete tables accepted (Kraft test, bounded alphabets); emit() per call from every saved state (bounded). Prefix decoding, inverse MTF and inverse BWT are NOT covered, hence model_checking, not proof.',
     note=PCHAIN + 'mtf_one general path, decode(), emit(), retrieve() only bounded.',
     technique='CBMC contract on parse() + exhaustive lemmas + bounded section checks of retrieve()/make_tree()/emit()',
     undecided=['retrieve() decoding agreement with the canonical code (start/base/count/perm)', 'mtf_one() both paths', 'decode() beyond 4-byte blocks and the derandomisation toggles (first at byte 617)', 'full-size behaviours (primary index 899999, 900000-byte blocks)'])
prop('C07', level='proof',
     text='Proves the path from every detected error to the process outcome: every error status reaches a fail* reporter, reporters never return, bailout on the '
          'main thread cleans up before _exit(1), other threads promote and signal; detection itself is C05, memory safety C08.',
     note=PCHAIN + 'never hangs is liveness and is not decided; stdio/pthread/signal calls are assumed contracts.',
     technique='CBMC contracts with _Noreturn reporter stubs recording ghost state', design_ref='§4 C07',
     undecided=['"never hangs" (liveness)', 'that every damaged input is detected (C05)'])
prop('C08', level='proof',
     text='Every harness runs with bounds, pointer, overflow, shift and division checks on, so the functions under contract are free of UB under their stated '
          'preconditions; bounded functions are listed as bounded. The quick tier runs the obligations aimed at the C08 anchors (run accumulation shift bound, run dump vs tt_limit, '
          'fast-path guard, selector store bounds, end of block, heap primitives, collect()/final flush near capacity, xread/xwrite, selector MTF ctz argument, dummy table shifts); '
          'the thorough tier adds the safety checks of every other harness (scheduler task bodies, prefix decoding, inverse BWT, MTF fast path, emit, do_mtf).',
     note=PCHAIN + 'not a whole-program claim: divbwt at real block sizes, retrieve fast path on full streams and cross-thread lifetime are undecided.',
     technique='CBMC built-in safety checks on all contract harnesses', design_ref='§4 C08',
     undecided=['divbwt() sort stacks and recursion budget', 'retrieve() fast path (32-word precondition) and tt_limit check at real sizes', 'mtf_one() rebuild path', 'do_mtf(), generate_prefix_code() EM loops, transmit()', 'use-after-free across threads'])
prop('C09', level='proof',
     text='bits_init proved; attach()/detach() preserve the absolute bit position and yield the canonical position independent of block boundaries (bounded: <= 2 queued input blocks); position encoding injective and order-preserving (lemma); multi-buffer emission ordering (do_emit/do_reorder) proved; emit() suspend/resume: one call from every saved state equals the un-RLE rule on the logical state (bounded), so cutting the output anywhere cannot change bytes or CRC; set_memory_constraints proved in work().',
     note=PCHAIN + 'retrieve() NEED suspend/resume relational property is undecided (coroutine structure).',
     technique='CBMC contracts on expand.c glue + per-state bounded checks of the resumable emit()',
     undecided=['retrieve() NEED() suspend/resume at arbitrary word boundaries (coroutine)', 'emit() split invariance is per call; the induction over calls is a paper step', 'attach()/detach() with more than two queued input blocks'])
prop('C10', level='proof',
     text='Safety statement proved on do_parse/do_reorder/do_scan/do_retrieve: a buffer reaches the sink only if its base equals a position at which the sequential '
          'parser accepted a header, in parser order; everything else is discarded.',
     note=PCHAIN + 'sequential determinism of retrieve from equal bit positions assumed.',
     technique='CBMC monitor-invariant contracts on expand.c task bodies', design_ref='§4 C10',
     undecided=['sequential determinism of retrieve() from equal bit positions (assumed)', 'order_q / unord_q occupancy (assumed where the code asserts it)'])
prop('C11', level='proof',
     text='Safety half: per-task monitor invariants (unit/slot conservation, queue occupancy below capacity at every enqueue, order) for every interleaving via havoc-at-lock in compress.c and expand.c; reader/writer/worker thread loops by one generic iteration (input-slot conservation, FIFO output queue, a task runs only if ready under the same lock acquisition, wake-up rule); heap primitives bounded. Termination/deadlock-freedom NOT decided; order_q/unord_q occupancy assumed.',
     note=PCHAIN + 'liveness is outside contract-based verification; stated undecided.',
     technique='Owicki-Gries style monitor invariants as CBMC assertions on the real task bodies and thread procedures',
     undecided=['termination / deadlock-freedom (liveness)', 'order_q and unord_q occupancy bounds (assumed where the code asserts them)', 'heap order of the priority queues (up_heap/down_heap bodies): no obligation; callers use the stub contract "old head handed out at root[size]"'])
prop('C12', level='proof',
     text='Lock discipline for every object of static storage duration: (1) accessor macros woven after each shared variable assert at every textual use (including uses inside the queue macros) '
          'that the guarding mutex is held or no other thread of the run exists, in all task bodies, callbacks and thread procedures of process.c, compress.c and expand.c; '
          '(2) a symbol-table scan shows that the codec translation units have no mutable static storage at all and that the scheduler translation units have none outside the guard map.',
     note=PCHAIN + 'The guard map is stated in contracts/*.spec; eof in expand.c is not instrumented (the name collides with struct members); tail_offs admits the documented unlocked read by its only writer; '
          'the parser automaton is owned by the parse-token holder; heap blocks handed between threads are argued from queue ownership (monitor invariants), not checked access by access.',
     technique='woven accessor assertions under CBMC monitor models + goto-cc symbol-table scan', design_ref='§4 C12, §9',
     undecided=['heap objects handed between threads (ownership transfer through the queues)', 'libc internals', 'eof in expand.c'])
prop('C14', level='proof',
     text='Lemma harnesses prove for every bit history that mini_dfa implements the longest-border (KMP) automaton of the literal pattern 0x314159265359 and that big_dfa is its 8-step composition with absorbing ACCEPT (all 49x256 entries); the scan() routine is checked against a naive matcher on windows of 84-127 symbolic bits (buffered bits + two input words) with symbolic skip (bounded), including that backtracking into a word always ends in that word; within such a window a candidate can only follow a skip that stays inside the buffered bits, so the word-skipping arithmetic is NOT decided (a seeded change there is missed, see DESIGN 9.4).',
     note=PCHAIN + 'the induction over bit histories that lifts the step lemma to all streams is a '
          'paper argument; scan() word loop only bounded (its loop shares a cycle with goto again, CBMC loop contracts cannot attach).',
     technique='CBMC lemma harnesses over scantab.h (exhaustive) + bounded check of scan() against a naive matcher',
     design_ref='§4 C14',
     undecided=['scan() beyond the stated window bound', 'the unwinding assertion of the goto-again cycle is replaced by the woven no-second-backtrack assertion', 'skip distances larger than the buffered bits are not decided (a candidate after skipped words needs >= 4 input words; those windows are vacuous under CBMC unwinding of the goto cycle) -- seeded change C14_scan_skip_rounding_after_dump is missed'],
     assumptions=['induction principle over bit histories (paper step)'])
prop('C15', level='proof',
     text='parse() contract: hd->crc is bit-for-bit the stored field and the stream check compares the stored trailer with the combination; custody of the header '
          'through order_q and the comparison in do_reorder are proved.',
     note=PCHAIN + 'emit() computing the CRC of the emitted bytes is bounded.',
     technique='CBMC contracts (parse reference automaton, do_reorder monitor harness)', design_ref='§4 C15',
     undecided=['emit() CRC per call only (induction over calls is a paper step)', 'that retrieve()/decode() deliver the bytes the CRC is computed over (C05 residue)'])
prop('C16', level='proof',
     text='Ghost file-system state: opathn != NULL iff a partial output exists; input removed only after output closed complete; bailout/halt/cleanup ordering; '
          'every syscall stub returns every POSIX outcome so each call position is a fault point.',
     note=PCHAIN + 'signal delivery assumed atomic w.r.t. ghost state; operand loop unrolled for 2 operands.',
     technique='CBMC contracts over main.c/signals.c with POSIX stubs and ghost file-system state', design_ref='§4 C16',
     undecided=['signal delivery inside libc calls (assumed atomic w.r.t. the ghost file-system state)', 'operand names longer than the bound (2 characters in the loop harness, 7 in the per-function harnesses)'])
prop('C17', level='model_checking',
     text='input_init admission rules, suffix_xform rules, output_init O_EXCL/mode/naming, output_regf_uninit metadata order, removal rule and exit status, each against the documented behaviour with every syscall outcome symbolic; operand names are bounded (<= 7 characters, which covers every suffix including whole-name-is-suffix), hence model_checking.',
     note=PCHAIN + 'string lengths bounded; POSIX O_EXCL semantics assumed.',
     technique='CBMC harnesses over main.c with POSIX stubs returning every outcome; bounded name length',
     undecided=['operand names longer than 7 characters', 'POSIX O_EXCL semantics (assumed)'])
prop('C18', level='proof',
     text='Per-run reset: primary_thread() resets eof and all three counters before init() and before any thread exists, whatever the previous run left; compress/expand init() give canonical scheduler state from any terminal state; the terminal predicate follows from the monitor invariant; main() loop body from an arbitrary between-operands state re-establishes it (no option changes, nothing tracked, signals unblocked), exit status 4 iff warned.',
     note=PCHAIN, technique='CBMC harnesses on primary_thread/init()/main loop body (inductive step over operands)',
     undecided=['uninit() assertions follow from the terminal predicate (lemma) but uninit() bodies are not run', 'equality of outputs combined vs separate is argued from the per-operand reset, not checked relationally'])
prop('C19', level='proof',
     text='work() sniffing proved: non-header input with -cdf to stdout writes exactly the 0-4 bytes read, then copies; header input goes to expansion. Copy pipeline: callbacks forward each buffer whole and once through the FIFO output queue, slot accounting inside the monitors, the copy ends only when end of input was seen and nothing is in flight; xread/xwrite loop contracts make fragmentation irrelevant.',
     note=PCHAIN + 'termination of the copy is liveness, undecided.',
     technique='CBMC contracts on work()/xread/xwrite + monitor harnesses of the copy callbacks and I/O threads',
     undecided=['termination of the copy (liveness)', 'copy() body itself (set-up of the pseudo process): no obligation'])
prop('C20', not_applicable='no obligation within reach decides it: the planned bounded check of assign_codes()/package_merge() (harness/h_assign.c, optimality oracle by enumeration) does not complete even for 3 symbols with 8-bit frequencies (SAT back ends exhaust 16 GB, z3 gives no answer in 900 s); see DESIGN.md section 6', level='model_checking',
     text='assign_codes/package_merge on the real code for small alphabets with symbolic frequencies compared with an enumerated optimum (bounded); single-table dummy '
          'code complete for all alphabet sizes (lemma).',
     note=PCHAIN + 'the 20-bit limit cannot bind at the bound; make_code_lengths not covered.',
     technique='bounded CBMC check of real package_merge/assign_codes against enumeration', design_ref='§4 C20')
prop('C21', level='proof',
     text='xread/xwrite: a -1 from read/write at any call position reaches failfx and never returns normally; reporter suppresses message only for EPIPE/EFBIG; '
          'bailout/promote signal ordering; main close(stdout) failure fatal.',
     note=PCHAIN + 'promptness/never hangs is liveness, undecided.',
     technique='CBMC loop contracts with POSIX stubs', design_ref='§4 C21',
     undecided=['"promptly" / "never hangs" (liveness)'])
prop('C22', level='model_checking',
     text='opts_setup against an executable model of the documented rules for bounded token lists (symbolic choice among documented spellings); helper contracts proved.',
     note=PCHAIN + 'token lists longer than the bound undecided; strtok/getenv/strcmp loop stubs trusted.',
     technique='bounded CBMC check of real opts_setup against documented-rule model', design_ref='§4 C22',
     undecided=['token lists longer than 5 / several tokens per environment variable', '-n/-m numeric arguments, -h/-V', 'real strtok()/getenv() (stubs)'])




# ---- C22: token tuples for the opts_setup instances (indices into MENU of harness/h_main.c)
OPT_MENU = ['-d', '-z', '-c', '-t', '-k', '-f', '-u', '-1', '-5', '-9', '-q', '-s', '-v', '-dc', '-zk', '-td', '-cz',
            '--decompress', '--compress', '--stdout', '--test', '--keep', '--force', '--sequential', '--fast', '--best', '--small',
            '--quiet', '--repetitive-fast', '--repetitive-best', '--exponential', '--verbose', '--', 'file', 'x.bz2']
OPTS_QUICK = 48


def opts_tuples():
    """Deterministic greedy cover: every ordered pair (x before y) of the mode-affecting tokens appears in some tuple with x in an
    earlier slot than y, and every other token appears at least once in an environment slot and once on the command line."""
    import itertools, random
    rnd = random.Random(20260922)
    core = [0, 1, 2, 3, 13, 14, 15, 16, 17, 18, 19, 20, 32, 33]          # -d -z -c -t clusters long forms -- file
    rest = [i for i in range(len(OPT_MENU)) if i not in core]
    need = set(itertools.product(core, core))
    tuples = []
    while need:
        best, bestc = None, -1
        for _ in range(200):
            t = [rnd.choice(core) for _ in range(5)]
            c = len({(t[i], t[j]) for i in range(5) for j in range(i + 1, 5)} & need)
            if c > bestc:
                best, bestc = t, c
        tuples.append(tuple(best))
        need -= {(best[i], best[j]) for i in range(5) for j in range(i + 1, 5)}
    # the remaining (non order-sensitive) tokens: once in an env slot, once in argv, next to mode tokens
    for k in range(0, len(rest), 2):
        r1 = rest[k]; r2 = rest[(k + 1) % len(rest)]
        tuples.append((r1, 0, r2, 3, 33))
        tuples.append((1, r2, 2, r1, r2))
    return tuples

def all_obligations():
    obs = []
    A = obs.append

    # ---------------- C14 tables
    A(Ob(name='scantab.lemma_mini', props=['C14', 'C10'], kind='lemma', harness='h_scantab.c', entry='h_lemma_mini',
         what='mini_dfa[s][b] is the longest-border step of pattern 0x314159265359 for every history (<=60 bits) and bit',
         functions=['mini_dfa (table)'], flags=['--unwind', '50', '--unwinding-assertions'],
         expect=['mini_dfa step equals', 'ACCEPT is the pattern length'], replayable=True, replay_src='scantab.h'))
    A(Ob(name='scantab.lemma_mini_base', props=['C14'], kind='lemma', harness='h_scantab.c', entry='h_lemma_mini_base',
         what='state 0 is the state of the empty history', functions=['mini_dfa (table)'],
         flags=['--unwind', '50', '--unwinding-assertions'], expect=['state of empty history'], replayable=True))
    A(Ob(name='scantab.lemma_big', props=['C14', 'C10'], kind='lemma', harness='h_scantab.c', entry='h_lemma_big',
         what='big_dfa[s][c] equals eight mini_dfa steps, ACCEPT absorbing, all 49x256 entries',
         functions=['big_dfa (table)'], flags=['--unwind', '10', '--unwinding-assertions'],
         expect=['big_dfa entry equals'], replayable=True, replay_src='scantab.h'))

    # ---------------- parse.c
    A(Ob(name='parse.contract', props=['C05', 'C06', 'C15', 'C07', 'C10'], kind='proof', harness='h_parse.c', entry='h_parse',
         what='parse() returns exactly the verdict of the reference stream automaton on the 16-bit units it consumes; '
              'hd->crc / hd->bs100k are the stored fields; unbounded input length (loop contract)',
         functions=['parse'], enforce='parse', loop_contracts=True, flags=['--unwind', '20'],
         expect=[r'parse\.postcondition', r'loop_invariant_base', r'loop_invariant_step', r'parse: the unit is the first 16 bits',
                 r'parse: after a stream trailer', r'parse: 16 bits are buffered'],
         assumed=['ntohl() = big-endian load (CBMC library model)'], twin='parse.twin.'))
    for live, words, tier in [(0, 4, 'quick'), (16, 3, 'quick'), (5, 4, 'thorough'), (63, 3, 'thorough'), (37, 4, 'thorough')]:
        A(Ob(name=f'parse.twin.L{live}W{words}', props=['C05', 'C06', 'C15'], kind='bounded', harness='h_parse.c', entry='h_parse_twin',
             what='explicit twin: up to 3 parse() calls over buffered bits + symbolic words at eof agree with the reference run over the raw bits',
             bound=f'{live} buffered bits + {words} input words, <= 3 calls, eof set', functions=['parse', 'parser_init'],
             defines={'TWIN_LIVE': str(live), 'TWIN_WORDS': str(words)}, tier=tier,
             flags=['--unwind', '20', '--unwinding-assertions'], expect=['twin: block reported'], replayable=True, timeout=900))
    A(Ob(name='parse.parser_init', props=['C05', 'C06', 'C15'], kind='proof', harness='h_parse.c', entry='h_parser_init',
         what='parser_init() state is coupled to a fresh reference automaton', functions=['parser_init'],
         expect=['parser_init: implementation state coupled'], replayable=True))
    A(Ob(name='parse.bits_lemma', props=['C05', 'C06', 'C15', 'C14'], kind='lemma', harness='h_parse.c', entry='h_bits_lemma',
         what='bits_need/bits_peek/bits_dump implement a big-endian bit queue for every buffer state and n in 1..32',
         functions=['bits_need (macro)', 'bits_peek (macro)', 'bits_dump (macro)'],
         expect=['bits_need: the word is appended big-endian', 'bits_dump: removes exactly'], replayable=True))

    # ---------------- parse.c scan(): bounded window against a naive matcher (C14 O14.3)
    # (three-word windows: the candidate-found paths are cut by the unwinding bound of the goto-again cycle for every bound tried up to 6 -> vacuous, not used)
    for live, words, tier in ((20, 2, 'quick'), (63, 2, 'thorough'), (41, 2, 'thorough'), (32, 2, 'thorough')):
        A(Ob(name=f'parse.scan.L{live}W{words}', props=['C14'] + (['C10', 'C08'] if tier == 'thorough' else []), kind='bounded', harness='h_parse.c', entry='h_scan', tier=tier, solver='cadical',
             defines={'SCAN_LIVE': str(live), 'SCAN_WORDS': str(words)}, timeout=2400,
             bound=f'{live} buffered bits + {words} input words, every bit symbolic; skip distance symbolic (0..{live + 32 * words + 40})',
             what='scan() returns OK exactly when the 48-bit pattern 0x314159265359 occurs wholly at or after the start position (current position, or the word boundary the skip distance '
                  'rounds up to) with 32 more bits after it; the position is then the end of the first such occurrence plus 32 bits; otherwise MORE with the whole block consumed; '
                  'after backtracking into a word the bit loop always finds the pattern end there (no second backtrack)',
             functions=['scan'],
             flags=['--unwind', '4', '--unwindset', f'scan.0:70,scan.1:{words + 3},scan.2:{words + 2},h_scan.0:{words + 2},h_scan.1:{live + 2},h_scan.2:{32 * words + 2},h_scan.3:50,h_scan.4:{live + 32 * words + 2}', '--unwinding-assertions'],
             ignore=[r'scan\.unwind\.1 '],
             expect=['scan finds the first occurrence', 'scan reports nothing where the pattern', 'scan: after backtracking into a word'], replayable=True, replay_src='parse.c',
             assumed=['the unwinding assertion of the `goto again` cycle (scan.unwind.1) is not used: CBMC reports it failed for every bound although the woven assertion '
                      '"no second backtrack" (at most two arrivals at `again`) is discharged on the same unwinding; bit loop and word loop bounds are checked by their own unwinding assertions']))

    # ---------------- decode.c
    for j, as_, t in [(0, 3, 0), (2, 258, 5)]:
        A(Ob(name=f'decode.delta_step.j{j}', props=['C05', 'C06', 'C01'], kind='lemma', harness='h_decode.c', entry='h_delta_step',
             what='every 6-bit delta window of the real retrieve() (L[]/R[] tables + range test), from every length value 0..31 the code can hold, '
                  'is accepted iff strict step-by-step bzip2 1.0.x decoding accepts it, with the same resulting length/consumed bits',
             functions=['retrieve (code-length delta section)', 'L[] R[] (tables)'], flags=['--unwind', '8', '--unwinding-assertions'],
             defines={'DELTA_J': str(j), 'DELTA_AS': str(as_), 'DELTA_T': str(t)},
             expect=['delta window accepted by the table-driven decoder stays within', 'delta window rejected by the table-driven'],
             canaries=['CANARY delta accept path reached'], replayable=True, stream_replay='delta'))

    for mx, tier in ((6, 'quick'), (8, 'thorough')):
        A(Ob(name=f'decode.make_tree_kraft.as{mx}', props=['C05', 'C06', 'C08'], kind='bounded', harness='h_decode.c', entry='h_make_tree_kraft', defines={'KRAFT_MAX_AS': str(mx), 'KRAFT_T': '5' if mx == 6 else '0'}, tier=tier,
             bound=f'alphabet size 3..{mx} (symbolic), every length 1..20 symbolic; the by-length summation of the code is compared with the by-symbol definition, an equivalence '
                   'SAT only decides for small alphabets (258 symbols: no result in 900 s)',
             what='make_tree(): the table is accepted iff its Kraft sum is exactly 1, marked ERR_INCOMPLT iff below, ERR_PREFIX iff above '
                  '(reference: the sum of 2^(20-len) computed from the definition)',
             functions=['make_tree (counting + completeness test)'], flags=['--unwind', '24', '--unwinding-assertions'], timeout=900,
             expect=['a complete prefix code', 'an incomplete code', 'an oversubscribed code'], replayable=True))
    for j in (0, 32765):
        A(Ob(name=f'decode.selector_step.j{j}', props=['C05', 'C06', 'C07', 'C08'], kind='lemma', harness='h_decode.c', entry='h_selector_step', defines={'SEL_J': str(j)},
             what='every 6-bit selector window of the real retrieve(), for every table count 2..6: accepted iff its unary code value is below the table count '
                  '(six ones is never a code), stored value = code value, exactly its bits consumed; store index within selector[] up to the 32767th selector',
             functions=['retrieve (selector section)', 'table[] (unary code lengths)'], flags=['--unwind', '8', '--unwinding-assertions'],
             expect=['accepted selector is the unary code value', 'selector rejected only if'], canaries=['CANARY selector accept path reached'], replayable=True))
    A(Ob(name='decode.selector_cap', props=['C06'], kind='lemma', harness='h_decode.c', entry='h_selector_cap',
         what='after the tables are read the number of selectors used is min(selectors read, 18001) for every count 1..32767',
         functions=['retrieve (selector bound)'], flags=['--unwind', '260', '--unwinding-assertions'], expect=['selectors used = min'],
         canaries=['CANARY group loop reached'], replayable=False))
    for fill in (0, 1, 2):
        A(Ob(name=f'decode.end_of_block.fill{fill}', props=['C05', 'C08', 'C06'], kind='bounded', harness='h_decode.c', entry='h_end_of_block', defines={'EOB_FILL': str(fill)},
             bound=f'block already holds {fill} symbols; 8 symbolic input bits (then EOB) of a RUNA/RUNB/EOB-only table; pending run <= 3; primary index symbolic (24 bits)',
             what='end of block in the real retrieve(): OK only if the block is non-empty and the primary index lies inside it; ERR_EMPTY / ERR_BWTIDX exactly otherwise',
             functions=['retrieve (slow path, end of block)', 'make_tree'], timeout=900, 
             checks=['--bounds-check', '--no-pointer-check', '--signed-overflow-check', '--undefined-shift-check'],     # no pointer check: tt_limit = tt + 900000 lies outside the stand-in array by construction
             flags=['--unwind', '8', '--unwindset', ','.join(f'make_tree.{i}:1030' for i in range(13)) + ',retrieve.10:24,retrieve.11:24,retrieve.13:24', '--unwinding-assertions'],
             expect=['OK only for a non-empty block', 'a block is accepted only if it is non-empty'], replayable=True,
             assumed=['output array stands in with 64 entries (<= 21 symbols are produced); tt_limit is compared, never dereferenced', 'the retriever state is a static harness object (a malloc()ed 60 KB state makes every access a byte extract): free() of it is not checked here']))
    # ---------------- decode.c emit(): one call from every saved state (C05 O5.7, C06 O6.5, C09 O9.2, C15 O15.3)
    for st in range(6):
        for rest in (0, 1, 2, 3, 4):
            if rest == 4 and st != 0:
                continue
            # S5R3 is in the quick tier: it is the shortest way into the main loop's "three equal bytes written, fourth pending" suspension
            A(Ob(name=f'decode.emit_step.S{st}R{rest}', props=['C05', 'C06', 'C09', 'C15', 'C08'], kind='bounded', tier='quick' if (rest <= 2 or (st == 5 and rest == 3)) else 'thorough',
                 harness='h_emit.c', entry='h_emit_step', extra_srcs=['src/crctab.c'], defines={'EMIT_S': str(st), 'EMIT_REST': str(rest)}, solver='cadical',
                 bound=f'resumed in saved state {st} with {rest} run-length-encoded byte(s) still unfetched; byte values 0..5 (so repeat counts <= 5), pending byte, run byte, '
                       'running CRC and output buffer size 1..' + str(rest + 14) + ' symbolic',
                 what='one call of the real emit() from this saved state writes exactly the bytes the un-RLE rule yields from the corresponding logical decoder state until the buffer is '
                      'full or the block ends; returns OK / MORE / ERR_RUNLEN accordingly (four equal bytes ending the block without a count are always rejected); on MORE the saved '
                      'state is the logical state; on OK the reported CRC is the CRC of the bytes written',
                 functions=['emit'], timeout=900,
                 flags=['--unwind', '5', '--unwindset', 'emit.0:8,emit.1:8,emit.2:8,emit.3:8,emit.4:5,h_emit_step.0:6,h_emit_step.1:6,h_emit_step.2:52,h_emit_step.3:24', '--unwinding-assertions'],
                 expect=['emit returns OK when the block is finished', 'the state saved at a full buffer is the logical decoder state', 'the bytes written are the reference decoding'],
                 replayable=True, replay_src='decode.c',
                 assumed=['the IBWT list is the linear list decode() builds (node i -> node i+1); the meaning of the saved fields is the stated representation contract']))

    # ---------------- encode.c sections extracted verbatim on every run (contracts/encode.c.spec): C02 O2.5
    XS = ['section extraction: the lines are copied verbatim from the current source; the rest of the enclosing function is dropped and replaced by the stated context assumptions',
          'encoder_state stand-in: member u.s with its real type (__typeof__), without the union overlay with bucket[]']
    for slot, tier in ((0, 'quick'), (3, 'thorough')):
      for lo, hi in ((3, 66), (67, 130), (131, 194), (195, 258)):
        A(Ob(name=f'encode.dummy_table.slot{slot}.as{lo}_{hi}', props=['C02', 'C08'], kind='lemma', harness='h_encode_sections.c', entry='h_dummy_table', tier=tier, solver='cadical',
             defines={'DT_SLOT': str(slot), 'DT_LO': str(lo), 'DT_HI': str(hi)},
             what=f'generate_prefix_code(), single-table blocks: for EVERY alphabet size {lo}..{hi} (the four instances cover 3..258) the dummy second table has lengths within 1..20, '
                  'Kraft sum exactly 1 (complete), one +1 step at most, and the cost added equals its transmitted size',
             functions=['generate_prefix_code (dummy-table section)'], flags=['--unwind', '262', '--unwinding-assertions'], timeout=1200,
             expect=['dummy table: the code is complete', 'dummy table: every code length is within'], assumed=XS, replayable=True))
    A(Ob(name='encode.padding', props=['C02', 'C08'], kind='lemma', harness='h_encode_sections.c', entry='h_padding',
         what='encode(): for every block bit cost and selector count the padding makes the block a whole number of bytes using 0-3 dummy delta steps and at most one extra 1-bit selector; selector count <= 18002',
         functions=['encode (padding section)'], flags=['--unwind', '8', '--unwinding-assertions'], expect=['padding: the block becomes a whole number of bytes', 'padding: the selector count stays within'], assumed=XS, replayable=True))
    for c in range(6):
        A(Ob(name=f'encode.selector_mtf.c{c}', props=['C02', 'C08'], kind='lemma', harness='h_encode_sections.c', entry='h_selector_mtf', defines={'SMTF_C': str(c)},
             what='encode(): the packed-nibble move-to-front step, for every list (all 720 permutations) and this selected table: value sent = position of the table, list updated by move-to-front; '
                  '__builtin_ctz argument non-zero, no undefined shift',
             functions=['encode (selector MTF section)'], flags=['--unwind', '8', '--unwinding-assertions'], expect=['selector MTF: the value sent is the position', 'selector MTF: the table moves to the front'], assumed=XS, replayable=True))
    for nb, st in ((4, 4), (5, 4), (5, 258), (4, 100), (5, 5), (3, 0), (6, 3), (6, 0), (2, 2)):
        A(Ob(name=f'encode.final_flush.n{nb}s{st}', props=['C04', 'C02', 'C01', 'C08'], kind='bounded', harness='h_encode_sections.c', entry='h_final_flush', defines={'FF_NB': str(nb), 'FF_ST': str(st)},
             bound=f'capacity 6, {nb} bytes in the block, saved run state {st} (concrete: both index the encoder object); block contents and in-use map symbolic',
             what='encode(): a run of >= 4 still pending when the block is closed gets its count byte (length - 4) appended and marked in use; nothing else changes; the block stays within capacity',
             functions=['encode (final-flush section)'], flags=['--unwind', '260', '--unwinding-assertions'], expect=['final flush: the block never exceeds'],
             assumed=XS[:1] + ['saved-state facts established by the collect() instances: 0 <= rle_state < 259; rle_state >= 4 implies nblock < capacity'], replayable=True))
    A(Ob(name='encode.group_count', props=['C02', 'C08'], kind='bounded', harness='h_encode_sections.c', entry='h_group_count', bound='blocks of 2..70 symbols (stand-in array); alphabet size symbolic',
         what='generate_prefix_code(): one selector per started group of 50 symbols, 1..6 tables tried, the last group completed with the dummy symbol and nothing written beyond it',
         functions=['generate_prefix_code (group-count section)'], flags=['--unwind', '125', '--unwinding-assertions'], expect=['groups: one selector per started group', 'groups: the last group is completed'], assumed=XS, replayable=True))
    A(Ob(name='encode.block_header', props=['C02', 'C01', 'C15'], kind='lemma', harness='h_encode_sections.c', entry='h_block_header',
         what='transmit(): for every running CRC and primary index the block begins with the 48-bit magic, the complemented CRC, a 0 randomisation bit and the 24-bit primary index (bit-exact)',
         functions=['transmit (block-header section)'], flags=['--unwind', '4', '--unwinding-assertions'], expect=['block header: begins with the 48-bit block magic', 'block header: the randomisation bit is 0'],
         assumed=XS[:1], replayable=True))
    A(Ob(name='encode.selector_send', props=['C02', 'C01'], kind='bounded', harness='h_encode_sections.c', entry='h_selector_send', bound='3 selectors (symbolic MTF positions), 2..6 tables, both possible bit-buffer fills at that point',
         what='transmit(): the 3-bit table count, the 15-bit selector count and one unary code per selector (position in ones, then a zero) are appended bit-exactly',
         functions=['transmit (selector section)'], flags=['--unwind', '130', '--unwinding-assertions'], expect=['each selector is sent in unary', '3-bit table count'], assumed=XS, replayable=True))
    for tas, lmax, tier in ((2, 4, 'quick'), (3, 6, 'thorough')):
        A(Ob(name=f'encode.tables_send.a{tas}l{lmax}', props=['C02', 'C01'], kind='bounded', harness='h_encode_sections.c', entry='h_tables_send', solver='cadical', tier=tier,
             defines={'TS_AS': str(tas), 'TS_LMAX': str(lmax)}, bound=f'two tables of {tas} symbols, code lengths 1..{lmax} symbolic, padding 0..3 symbolic',
             what='transmit(): the code-length tables (5-bit start value incl. padding, +1/-1 delta codes, stop bits) read back with the strict step-by-step decoder of bzip2 1.0.x give exactly the lengths, '
                  'every intermediate value within 1..20, nothing else appended',
             functions=['transmit (table section)'], flags=['--unwind', '24', '--unwindset', 'h_tables_send.6:258,h_tables_send.7:258', '--unwinding-assertions'], timeout=1200,
             expect=['tables: decoding the transmitted bits', 'tables: the start value and every intermediate'], assumed=XS, replayable=True))
    A(Ob(name='encode.first_length', props=['C02'], kind='lemma', harness='h_encode_sections.c', entry='h_first_length',
         what='transmit(): for every first code length 1..20 and padding 0..3 the 5-bit start value of the first table stays within 1..20 and lies exactly tree_pad steps from the real length',
         functions=['transmit (first-length section)'], flags=['--unwind', '8', '--unwinding-assertions'], expect=['first table: the 5-bit start value stays within'], assumed=XS, replayable=True))

    A(Ob(name='decode.mtf_fast', props=['C06', 'C05', 'C08', 'C01'], kind='bounded', harness='h_decode.c', entry='h_mtf_fast', solver='cadical', timeout=1200,
         bound='indices 1..15 (the fast path); the first row at every offset of a 64-byte window that stands in for the 8192-byte slide (with the real size SAT runs out of memory, z3 gives no answer); contents symbolic',
         what='mtf_one(), index < 16: returns the element at that list position, moves it to the front shifting the ones before it, leaves the row pointer and every byte outside the first row unchanged',
         functions=['mtf_one (fast path)'], flags=['--unwind', '20', '--unwinding-assertions'], expect=['mtf_one \\(index < 16\\): returns the element', 'mtf_one \\(index < 16\\): nothing outside'], replayable=True, replay_src='decode.c',
         assumed=['translation invariance of the fast path inside the slide (it only dereferences imtf_row[0] + 0..15)']))
    for case, desc in ((0, '21 symbols with lengths 1..20,20 (20-bit codes)'), (1, 'flat 8-symbol code'), (2, '13 symbols, lengths out of symbol order across the 10-bit table boundary'), (3, 'smallest alphabet 2,1,2')):
        for slow in (0, 1):
            A(Ob(name=f'decode.prefix_decode.c{case}.{"slow" if slow else "fast"}', props=['C06', 'C05', 'C01', 'C08'], kind='bounded', harness='h_decode.c', entry='h_prefix_decode', solver='cadical',
                 defines={'PD_CASE': str(case), 'PD_SLOW': str(slow)}, tier='quick' if case in (0, 2) else 'thorough', timeout=1200,
                 bound=f'concrete complete length vector: {desc}; every 63-bit buffer content symbolic',
                 what='the tables built by the real make_tree() (start/base/count/perm), used by the decoding expression of retrieve() (' + ('slow' if slow else 'fast') + ' path copy, extracted verbatim), decode '
                      'every buffer content to the symbol whose canonical code word prefixes it and consume exactly that many bits -- including 20-bit codes',
                 functions=['make_tree (table construction)', 'retrieve (prefix decoding expression)'], flags=['--unwind', '1030', '--unwinding-assertions'],
                 expect=['prefix decoding: the symbol and length found', 'make_tree: a complete code is accepted'], replayable=True, replay_src='decode.c',
                 assumed=['section extraction: the 13/16 lines of the decoding expression are copied verbatim; the surrounding loop of retrieve() is dropped']))
    for slow in (0, 1):
        A(Ob(name=f'decode.run_accumulate.{"slow" if slow else "fast"}', props=['C08', 'C05', 'C06'], kind='lemma', harness='h_decode.c', entry='h_run_accumulate', defines={'RA_SLOW': str(slow)},
             what='retrieve(), zero-run accumulation (' + ('slow' if slow else 'fast') + ' path copy, extracted verbatim): from every state with run >= 2^shift - 1 and shift <= 21 the shift is defined, '
                  'nothing overflows, the invariant is preserved and RUNA/RUNB add 1 or 2 times 2^position; a run that outgrew 900000 accepts no more run symbols',
             functions=['retrieve (run accumulation)'], flags=['--unwind', '4', '--unwinding-assertions'], expect=['RUNA/RUNB add 1 or 2 times', 'the invariant run >= 2'], replayable=True,
             assumed=['the invariant holds initially (run in {0,1}, shift 0, set where a run starts) -- by inspection of the three assignment sites']))
    for cp, nm in ((0, 'fast'), (1, 'slow'), (2, 'eob')):
        A(Ob(name=f'decode.run_dump.{nm}', props=['C08', 'C05', 'C06'], kind='lemma', harness='h_decode.c', entry='h_run_dump', defines={'RD_COPY': str(cp)},
             what='retrieve(), run dump (' + nm + ' copy, extracted verbatim): a run is written only if it fits in the rest of the block, otherwise ERR_OVERFLOW with nothing written; '
                  'exactly run copies in place, nothing beyond the limit, frequency count updated (block stand-in of 6 entries: the section only compares and advances pointers)',
             functions=['retrieve (run dump)'], flags=['--unwind', '12', '--unwindset', 'h_run_dump.1:258', '--unwinding-assertions'], expect=['a run that does not fit', 'exactly run copies of the run byte'], replayable=True))
    A(Ob(name='decode.fast_path_guard', props=['C08', 'C05'], kind='lemma', harness='h_decode.c', entry='h_fast_path_guard',
         what='retrieve(): whenever its guard (extracted verbatim) selects the fast path, 50 applications of the real NEED_FAST()/DUMP(k) macros with any code lengths 1..20, from any number of buffered bits, '
              'never read a word at or beyond `limit` (the buffer ends exactly there: an over-read is an out-of-bounds dereference)',
         functions=['retrieve (fast-path guard)', 'NEED_FAST (macro)', 'DUMP (macro)'], flags=['--unwind', '52', '--unwinding-assertions'], expect=['fast path: a whole group of 50 codes'], replayable=True,
         assumed=['loop skeleton of the fast path abstracted to its two input-touching statements; code lengths are 1..20 (decode.prefix_decode.*, make_tree)']))
    # ---------------- decode.c decode(): inverse BWT (C06 O6.4, C01 O1.2 decoder side)
    for n, tier in ((3, 'quick'), (4, 'thorough')):
        A(Ob(name=f'decode.ibwt.n{n}', props=['C06', 'C01', 'C05', 'C08'], kind='bounded', tier=tier, harness='h_emit.c', entry='h_decode_ibwt', extra_srcs=['src/crctab.c'], solver='cadical',
             defines={'IBWT_N': str(n)}, bound=f'texts of 1..{n} bytes over 3 values, all symbolic; both the ordinary and the in-situ (randomised-block) path; no derandomisation toggle falls inside {n} bytes',
             what='decode(): given the Burrows-Wheeler transform of a text (computed naively by sorting rotations) the linked list it builds, walked the way emit() walks it from the primary index, '
                  'yields the text; pointers stay inside the block; the run-length decoder state is reset',
             functions=['decode'], flags=['--unwind', '8', '--unwindset', 'decode.0:258,h_decode_ibwt.4:258', '--unwinding-assertions'], timeout=1200,
             expect=['decode\\(\\): walking the list from the primary index', 'decode\\(\\): list pointers stay inside'], replayable=True, replay_src='decode.c'))

    A(Ob(name='encode.encoder_init', props=['C01', 'C04', 'C02'], kind='proof', harness='h_collect.c', entry='h_encoder_init', extra_srcs=['src/crctab.c'], defines={'CAP': '3', 'FILL': '0', 'RUNK': '0', 'NIN': '1'},
         what='encoder_init(): every block starts from the empty saved state (no bytes, no pending run, CRC start value, empty in-use map) with the requested capacity -- the state the collect() instances start from',
         functions=['encoder_init'], flags=['--unwind', '258', '--unwinding-assertions'], expect=['encoder_init: empty block'], replayable=True))
    A(Ob(name='encode.make_map_e', props=['C01', 'C02', 'C08'], kind='proof', harness='h_collect.c', entry='h_make_map_e', extra_srcs=['src/crctab.c'], defines={'CAP': '3', 'FILL': '0', 'RUNK': '0', 'NIN': '1'},
         what='make_map_e(): for every in-use map the used byte values are numbered 0,1,2.. in ascending order and their count is returned (ghost index over all 256 values)',
         functions=['make_map_e'], flags=['--unwind', '258', '--unwinding-assertions'], expect=['make_map_e: the number advances by one'], replayable=True))
    A(Ob(name='decode.derandomise', props=['C06', 'C01'], kind='lemma', harness='h_emit.c', entry='h_derandomise', extra_srcs=['src/crctab.c'],
         what='decode(), derandomisation section (extracted verbatim): over the first 138000 bytes of a block -- past the first wrap-around of the 512-entry table -- exactly the positions '
              'prescribed by the format are toggled (a constant table walk: everything is concrete)',
         functions=['decode (derandomisation section)', 'rand_table'], flags=['--unwind', '300', '--unwinding-assertions'], timeout=1200,
         expect=['derandomisation: every position prescribed'], replayable=True, assumed=['section extraction (6 lines); block stand-in of 138000 entries']))
    # ---------------- encode.c do_mtf(): MTF + zero-run coder against the inverse of the format (C01 O1.3)
    for n, a, tier in ((5, 3, 'quick'), (6, 4, 'thorough'), (7, 3, 'thorough')):
        A(Ob(name=f'encode.do_mtf.n{n}a{a}', props=['C01', 'C02', 'C08'], kind='bounded', tier=tier, harness='h_do_mtf.c', entry='h_do_mtf', extra_srcs=['src/crctab.c'], solver='cadical',
             defines={'MTF_N': str(n), 'MTF_A': str(a)}, bound=f'blocks of 1..{n} bytes over {a} distinct values, all symbolic',
             what='do_mtf(): decoding its symbols with the inverse zero-run / move-to-front of the bzip2 format reproduces the block; at most n+1 symbols, last one end-of-block; '
                  'the frequencies handed on are the counts of the symbols written',
             functions=['do_mtf'], flags=['--unwind', str(n + 4), '--unwindset', 'h_do_mtf.0:258,do_mtf.1:257', '--unwinding-assertions'],
             expect=['do_mtf: decoding the symbols', 'do_mtf: the symbol frequencies'], replayable=True, replay_src='encode.c'))

    # ---------------- encode.c collect(): one-step conformance with the greedy packing rule (C04 O4.1, C01 O1.1, C02 O2.4)
    # collect(): CBMC's pointer-overflow check is left out here (measured: 227 s -> 6 s per instance; every pointer the function forms is still bounds- and validity-checked when used)
    COLLECT_CHECKS = ['--bounds-check', '--pointer-check', '--signed-overflow-check', '--undefined-shift-check', '--div-by-zero-check']
    def collect_states(maxcap):
        for cap in range(1, maxcap + 1):
            for fill in range(0, cap):                       # a saved (non-full) state always has room for one more byte
                ks = [0] + [k for k in (1, 2, 3) if k <= fill] + ([4, 5, 257, 258] if fill >= 4 else [])
                for k in ks:
                    yield cap, fill, k
    for cap, fill, k in collect_states(8):
        for nin in (1, 2, 3, 4):
            if nin >= 3 and cap - fill > 2:
                continue        # three or more symbolic bytes with room for all of them: symbolic execution of the goto-built machine does not finish (measured, > 600 s)
            tier = 'quick' if (cap <= 5 and nin <= 3) else 'thorough'
            A(Ob(name=f'encode.collect.M{cap}F{fill}K{k}N{nin}', props=['C04', 'C01'] + (['C02', 'C08'] if (cap == 5 and fill >= 3) else []), kind='bounded', tier=tier, harness='h_collect.c', entry='h_collect_step',
                 extra_srcs=['src/crctab.c'], defines={'CAP': str(cap), 'FILL': str(fill), 'RUNK': str(k), 'NIN': str(nin)},
                 bound=f'block capacity {cap}, {fill} bytes already stored, pending run state {k}, {nin} symbolic input byte(s); block contents, run byte, CRC and in-use map symbolic',
                 what='one call of the real collect() from this saved state consumes, stores, counts runs, updates CRC / in-use map / saved run state and reports "full" exactly as the '
                      'greedy packing rule of C04 applied byte by byte (four copies + count, a fourth equal byte only if it and its count fit, runs cut at 259); block never exceeds capacity',
                 functions=['collect'], checks=COLLECT_CHECKS, flags=['--unwind', str(nin + 2), '--unwindset', ','.join(f'h_collect_step.{i}:258' for i in range(6)), '--unwinding-assertions'], timeout=600,
                 expect=['collect consumes exactly the input bytes', 'block never exceeds its capacity', "collect reports 'block full' exactly"], replayable=True, replay_src='encode.c',
                 assumed=['divbwt() stub (not called by collect)', 'saved states enumerated: every (capacity <= 8, fill, run state in {0..5,257,258}) a call can leave behind']))

    # collect(): whole runs inside one call, concrete bytes (the in-line "state 4+" loop): a run of r equal bytes after i other bytes, then a different byte
    def patterns():
        for cap in (6, 7, 8):
            for lead in range(0, cap - 3):
                for run in (4, 5, 6):
                    yield cap, [66] * lead + [65] * run + [67, 68]
    for cap, pat in patterns():
        nm = ''.join(chr(b) for b in pat)
        A(Ob(name=f'encode.collect.pat.M{cap}.{nm}', props=['C04', 'C01'], kind='bounded', tier='quick' if cap in (6, 7) else 'thorough', harness='h_collect.c', entry='h_collect_step',
             extra_srcs=['src/crctab.c'], defines={'CAP': str(cap), 'FILL': '0', 'RUNK': '0', 'NIN': str(len(pat)), 'PATTERN': '{' + ','.join(map(str, pat)) + '}'},
             bound=f'block capacity {cap}, empty block, the concrete input {nm} (runs of equal bytes entirely inside one call); in-use map symbolic, CRC start value as after encoder_init()',
             what='one call of the real collect() on this input packs exactly as the greedy rule of C04 applied byte by byte (count byte after four copies, the byte after a run starts a new '
                  'literal whenever one slot is free, block closed otherwise, runs cut at 259)',
             functions=['collect'], checks=COLLECT_CHECKS, flags=['--unwind', str(len(pat) + 3), '--unwindset', ','.join(f'h_collect_step.{i}:258' for i in range(7)), '--unwinding-assertions'], timeout=600,
             expect=['collect consumes exactly the input bytes', 'block never exceeds its capacity'], replayable=True, replay_src='encode.c',
             assumed=['divbwt() stub (not called by collect)']))

    # ---------------- process.c I/O primitives
    POSIX_RW = ['read(): POSIX contract (-1 | 0 | 1..count), stored bytes not modelled', 'write(): POSIX contract (-1 | 1..count for count>0)',
                'fail*/bailout are _Noreturn (stub: record + assume(0))']
    A(Ob(name='process.xread', props=['C03', 'C21', 'C19', 'C08'], kind='proof', harness='h_process.c', entry='h_xread',
         what='xread() returns only with the chunk full or after read() returned 0; every read() targets the next free byte with the whole '
              'remaining space; bytes delivered == bytes consumed == ispec.total increment; after read() == -1 it reaches failfx(&ispec) and never returns',
         functions=['xread'], enforce='xread', replace=['read'], loop_contracts=True, flags=['--unwind', '20'],
         expect=[r'xread\.postcondition', r'read\.precondition', 'loop_invariant_step', 'loop_decreases', 'failfx\\(\\) is reached only after'],
         assumed=POSIX_RW))
    A(Ob(name='process.xwrite', props=['C03', 'C21', 'C19', 'C02', 'C08'], kind='proof', harness='h_process.c', entry='h_xwrite',
         what='xwrite() offers every byte of the buffer to write() in order across short writes; ospec.total += size; fd == -1 only skips the '
              'write; after write() == -1 it reaches failfx(&ospec) and never returns',
         functions=['xwrite'], enforce='xwrite', replace=['write'], loop_contracts=True, flags=['--unwind', '20'],
         expect=[r'xwrite\.postcondition', r'write\.precondition', 'loop_invariant_step', 'loop_decreases'],
         assumed=POSIX_RW))
    # ---------------- static storage (supporting static fact for C12 / C03): what can be written at run time without a lock
    GUARD_MAP = {
        'src/process.c': 'source_mutex,source_cond,sink_mutex,sink_cond,sched_mutex,sched_cond,process,eof,work_units,in_slots,out_slots,total_in_slots,total_out_slots,in_granul,out_granul,'
                         'request_close,source_thread,sink_thread,worker_thread,output_q,finish,thread_id,next_task,source_thread_entry,sink_thread_entry,worker_thread_entry,primary_thread_entry',
        'src/compress.c': 'coll_q,trans_q,reord_q,order,next_id,combined_crc,collect_token,unfinished_work',
        'src/expand.c': 'input_q,head_offs,tail_offs,eof_missing,retr_q,emit_q,order_q,unord_q,parse_token,parsing_done,scan_q,reord_offs,parser_bs,par,reord_q',
    }
    A(Ob(name='static_storage.codec', props=['C12', 'C03', 'C09'], kind='lemma', harness='__symtab__', entry='-', extra_srcs=['src/encode.c', 'src/decode.c', 'src/divbwt.c', 'src/parse.c'],
         what='the codec translation units (run concurrently by all workers without any lock) define NO mutable object of static storage duration: no file-scope variable, no function-local static; '
              'all their tables are const',
         functions=['encode.c', 'decode.c', 'divbwt.c', 'parse.c (symbol tables)'], defines={'ALLOW': ''},
         assumed=['goto-cc symbol table: static lifetime + const qualification as computed by the C front end']))
    for tu, allow in GUARD_MAP.items():
        A(Ob(name='static_storage.' + os.path.basename(tu)[:-2], props=['C12'], kind='lemma', harness='__symtab__', entry='-', extra_srcs=[tu], defines={'ALLOW': allow},
             what='every mutable object of static storage duration in ' + tu + ' is one of the variables of the guard map (each is accessed under its monitor or in a single-threaded phase, '
                  'see the monitor harnesses); in particular there is no function-local static',
             functions=[os.path.basename(tu) + ' (symbol table)'], assumed=['goto-cc symbol table: static lifetime + const qualification as computed by the C front end']))

    # ---------------- process.c thread procedures and callbacks (three monitors; one generic loop iteration each)
    PM = ['pthread mutex/condition primitives: sequential monitor model (lock = havoc of the protected state subject to the monitor invariant; wait = unlock + lock)',
          'monitor invariants: source: free + held + queued input slots == total; sink: queue length + not-yet-pushed slot holders <= capacity; scheduler: next_task is empty or ready',
          'loops carry no local state between iterations, so one iteration from an arbitrary shared state is the induction step; loop exit paths run to the end of the procedure',
          'process callbacks (tasks, finished, on_block, on_written, init) are abstract stubs that assert their call-site obligations',
          'fail*/xraise/halt are stubs; clock functions return arbitrary values']
    PT = [('source_thread', 'h_source_thread', ['C03', 'C11', 'C12', 'C08'], ['xread'],
           'reader thread: takes an input slot only when one is free and no close was requested (inside the source monitor); reads one chunk of exactly in_granul bytes capacity through xread(); '
           'delivers the bytes read with that slot to on_block() (or gives the slot back for an empty chunk); continues only after a completely filled chunk; publishes eof inside the scheduler monitor',
           ['reader: it continues only after a chunk that was filled completely', 'source monitor: input slots are conserved', 'reader: end of input is published'], ['CANARY reader continues']),
          ('sink_thread', 'h_sink_thread', ['C03', 'C11', 'C12', 'C19', 'C08'], ['xwrite'],
           'writer thread: takes the oldest queued buffer inside the sink monitor, writes all of it through xwrite() outside, reports it once through on_written(); ends only when told to finish with the queue empty',
           ['writer: each buffer taken from the queue is written', 'writer: ends only when told to finish'], ['CANARY writer continues']),
          ('source_release_buffer', 'h_source_release_buffer', ['C11', 'C12', 'C19'], [], 'source_release_buffer(): the slot returns to the pool inside the source monitor; the reader is woken exactly when no slot was free', ['source_release_buffer: the reader is woken exactly'], []),
          ('source_close', 'h_source_close', ['C11', 'C12', 'C10'], [], 'source_close(): the close request is recorded inside the source monitor and a waiting reader is woken', ['source_close: the close request is recorded'], []),
          ('sink_write_buffer', 'h_sink_write_buffer', ['C03', 'C11', 'C12', 'C19'], [], 'sink_write_buffer(): the buffer is appended at the tail of the output queue (FIFO) inside the sink monitor within the queue capacity; the writer is woken', ['sink_write_buffer: the buffer is appended at the tail'], []),
          ('sched_unlock', 'h_sched_unlock', ['C11', 'C12'], [], 'sched_unlock()/select_task(): the highest-priority ready task becomes the hint; a worker is woken exactly when a task is ready or the process is finished', ['select_task picks the first ready task', 'sched_unlock wakes a worker exactly'], []),
          ('worker', 'h_worker', ['C11', 'C12'], [], 'worker thread: a task runs only if its ready() holds under the same lock acquisition; the hint is recomputed after every task; the worker waits only with an empty hint and ends only when the process is finished, waking the others',
           ['a task runs only if its ready\\(\\) predicate holds', 'worker: ends only when the process is finished'], ['CANARY worker continues after a task', 'CANARY worker woke up']),
          ('copy_callbacks', 'h_copy_callbacks', ['C19', 'C12'], [], '-cdf copy pipeline callbacks: an input buffer is queued for writing whole and once; a written buffer goes back to the reader; slot counters move inside the scheduler monitor', ['copy: an input buffer is queued'], []),
          ('copy_terminate', 'h_copy_terminate', ['C19'], [], 'copy_terminate(): the copy ends exactly when end of input was seen and no buffer is in flight', ['copy ends exactly when end of input was seen'], []),
          ('init_io', 'h_init_io', ['C18', 'C19', 'C11'], [], 'init_io(): request_close and finish are cleared and the output queue is emptied and sized for every run (compression, decompression and the -cdf copy), whatever the previous operand left',
           ['init_io\\(\\): every run starts with no close request'], []),
          ('copy', 'h_copy', ['C19', 'C18'], [], 'copy(): the -cdf pass-through starts from reset state (eof, both slot counters = 2, no close/finish request, empty output queue), runs the copy callbacks with two 64 KiB buffers between one reader and one writer, waits once and joins both threads',
           ['copy\\(\\): before its threads start', 'copy\\(\\): the pseudo process has no tasks'], ['CANARY copy waits for completion']),
          ('primary_prologue', 'h_primary_prologue', ['C18', 'C11'], [], 'primary_thread(): eof, in_slots, out_slots, work_units are reset to their canonical values before init() and before any thread of the run exists, whatever the previous operand left',
           ['every run starts from the canonical counters'], ['CANARY prologue complete'])]
    for fn, entry, pr, repl, what, exp, can in PT:
        A(Ob(name='process.' + fn, props=pr, kind='proof', harness='h_proc.c', entry=entry, what=what, functions=[fn.replace('_thread', '_thread_proc')], replace=repl,
             flags=['--unwind', '6'] + ([] if repl else ['--unwinding-assertions']), assumed=PM + (['xread()/xwrite(): own contracts (proved in process.xread / process.xwrite)'] if repl else []),
             expect=exp, canaries=can, timeout=900,
             gi_flags=(['--restrict-function-pointer', 'worker_thread_proc.function_pointer_call.1/run0,run1,run2'] if fn == 'worker' else [])))
    # (worker: next_task->run() would otherwise be resolved by type to every void(void) function whose address is taken, including the thread procedures themselves)

    A(Ob(name='process.heap', props=['C11', 'C08', 'C03'], kind='bounded', harness='h_proc.c', entry='h_heap', bound='priority queues of at most 7 elements (positions symbolic)',
         what='up_heap()/down_heap(): the queue stays a min-heap by position, holds exactly the same elements (plus the new one / minus the head), dequeue hands out the old head at root[size], '
              'nothing outside root[0..size] is touched -- the stub contract the monitor harnesses rely on',
         functions=['up_heap', 'down_heap'], flags=['--unwind', '10', '--unwinding-assertions'], expect=['down_heap: the old head', 'up_heap: heap order holds'], replayable=True))
    # ---------------- compress.c scheduler monitor
    MON = ['monitor model: sched_lock() = havoc of all scheduler-protected state + assume I_c; sched_unlock()/task exit = assert I_c with the resources the SPEC '
           'declares held at that point (Owicki-Gries with ghost ownership counters)',
           'up_heap/down_heap replaced by their contracts (old head handed out at root[size]; capacity asserted at every enqueue)',
           'collect/encode/transmit/encoder_init: assumed codec contracts (arbitrary results)', 'xmalloc never fails (failure path is fail(), _Noreturn)',
           'queued pointers refer to heap blocks disjoint from scheduler state', 'input-slot token conservation across the source monitor (reader holds one slot per chunk)']
    CT = [('do_collect', 'h_do_collect', ['C11', 'C03', 'C01', 'C04', 'C08', 'C12'], 'default-mode collector: unit/input accounting, position chaining pos/next, remainder re-queued at (major, minor+1), fresh encoder level*100000'),
          ('do_collect_seq', 'h_do_collect_seq', ['C11', 'C03', 'C01', 'C04', 'C08', 'C12'], '--sequential collector: single collector via collect token, unfinished block carried across chunks, accounting and chaining'),
          ('do_transmit', 'h_do_transmit', ['C11', 'C01', 'C08', 'C12'], 'transmit: takes a slot, returns the unit, hands the block to reord_q'),
          ('do_reorder', 'h_do_reorder', ['C11', 'C03', 'C01', 'C02', 'C08', 'C12'], 'reorder: only the block whose pos == order reaches the writer, whole; order = its next; combined CRC recurrence'),
          ('on_input_avail', 'h_on_input_avail', ['C11', 'C03', 'C12', 'C08'], 'reader callback: chunk n queued at position (n,0)'),
          ('on_write_complete', 'h_on_write_complete', ['C11', 'C12', 'C08'], 'writer callback: slot returned inside the monitor'),
          ('write_header', 'h_write_header', ['C02'], 'stream header bytes'), ('write_trailer', 'h_write_trailer', ['C02'], 'stream trailer bytes, CRC big-endian'),
          ('init', 'h_init', ['C18', 'C11', 'C02'], 'per-operand canonical start state and queue capacities'),
          ('terminal', 'h_terminal', ['C18', 'C11'], 'I_c and can_terminate() imply the terminal predicate'),
          ('guards', 'h_guards', ['C11', 'C03'], 'task guards: safety direction and documented reservation rules')]
    for fn, entry, pr, what in CT:
        A(Ob(name='compress.' + fn, props=pr, kind='proof', harness='h_compress.c', entry=entry, what=what,
             functions=[fn] if fn not in ('terminal', 'guards') else ['can_collect', 'can_collect_seq', 'can_transmit', 'can_reorder', 'can_terminate'],
             flags=['--unwind', '18', '--unwinding-assertions'], assumed=MON, replayable=False,
             expect=(['monitor invariant I_c holds at task exit'] if fn.startswith('do_') else [])))
    # ---------------- expand.c scheduler monitor
    MONX = [m.replace('I_c', 'I_x') for m in MON[:2]] + ['parse/scan/retrieve/decode/emit/decoder_init/decoder_free: assumed contracts (arbitrary results within their documented return sets; '
            'parse per its proved contract E5)', 'xmalloc never fails', 'queued pointers refer to heap blocks disjoint from scheduler state',
            'order_q / unord_q / input_q / scan_q occupancy bounds are ASSUMED at task entry where the code asserts them (inductive invariant not found: undecided residue)']
    XT = [('do_reorder', 'h_do_reorder', ['C05', 'C10', 'C15', 'C11', 'C09', 'C07', 'C08', 'C12'],
           'expand do_reorder: a buffer reaches the writer only if its base equals the head of order_q, the block fits the declared size, and (final buffer) status OK and '
           'computed CRC == stored CRC; every other final status reaches failf; earlier bases are discarded with the slot returned; multi-buffer blocks advance minor+1',
           ['a final buffer is written only if decoding succeeded', 'monitor invariant I_x holds at task exit'], ['CANARY failf reached']),
          ('do_emit', 'h_do_emit', ['C09', 'C15', 'C11', 'C08', 'C12'],
           'do_emit: slot taken, whole output buffer passed to emit(); continuing block re-queued at (major, minor+1); final buffer carries emit() CRC, status and end offset; unit returned',
           ['monitor invariant I_x holds at task exit', 'do_emit: block continues'], []),
          ('on_write_complete', 'h_on_write_complete', ['C11', 'C12', 'C08'], 'writer callback: slot returned inside the monitor', [], []),
          ('init', 'h_init', ['C18', 'C11'], 'expand init(): canonical start state and queue capacities from any previous state', ['init\\(\\): all queues empty'], []),
          ('guards', 'h_guards', ['C11', 'C10'], 'expand task guards: safety direction plus the documented discard/reservation rules (a spurious buffer is always discardable, the expected block can always proceed)',
           ['spurious candidate\\) is always ready to be discarded'], []),
          ('terminal', 'h_terminal', ['C18', 'C11'], 'I_x and can_terminate() imply the terminal predicate', [], [])]
    XB = [('do_parse', 'h_do_parse', ['C05', 'C10', 'C07', 'C15', 'C11', 'C08', 'C12'],
           'do_parse: every parse() error reaches failf; FINISH is accepted only if the stream ends inside the real file (zero-padding check), releases all speculative work; '
           'OK appends one order entry whose base is the position at which the header was accepted with the stored header unchanged, then adopts a candidate at that position or starts the master retrieve job',
           ['every parse error reaches failf', 'FINISH is accepted only if', "the order entry's base is the bit position"], ['CANARY failf reached']),
          ('do_scan', 'h_do_scan', ['C10', 'C11', 'C08', 'C12'],
           'do_scan: no match or parsing already finished -> nothing created; candidate at/before the parser position -> nothing created; new candidate -> one unord entry + one linked retrieve job with the same base',
           ['parsing already finished: nothing is created', 'a new candidate creates one unord entry'], []),
          ('do_retrieve', 'h_do_retrieve', ['C10', 'C11', 'C09', 'C08', 'C12'],
           'do_retrieve: finished retrieval -> emit job with the same base and retrieve() status; suspended -> re-queued; redundant/late -> released; units conserved',
           ['finished retrieval: the emit job keeps'], []),
          ('on_input_avail', 'h_on_input_avail', ['C05', 'C11', 'C12', 'C09'],
           'on_input_avail: eof_missing = padding bytes of the last word, padding zeroed, tail offset advances; dropped after end of stream', ['eof_missing = number of padding bytes'], [])]
    # detach() computes bs.limit - bs.data also for the end-of-input stream where attach() set both to NULL.  NULL - NULL is
    # undefined in ISO C but 0 on every supported ABI and is none of the behaviours C08 lists; CBMC's pointer-relation check
    # flags it (all six sub-checks).  Documented as out of scope, not counted, not reported.
    NULLDIFF = [r'detach\.pointer_arithmetic\.\d+ pointer relation: .* in bs\.(limit|data)']
    for gran in ('262144u', '32768u'):
        gd = {'GRANUL': gran}
        A(Ob(name=f'expand.pos_lemma.{gran}', props=['C09', 'C10'], kind='lemma', harness='h_expand.c', entry='h_pos_lemma', defines=gd,
             what='position (major, minor) is an injective, order-preserving function of the absolute bit position (input block size ' + gran + ')',
             functions=['struct position encoding'], expect=['position order is the order'], replayable=True))
        A(Ob(name=f'expand.bits_init.{gran}', props=['C09'], kind='proof', harness='h_expand.c', entry='h_bits_init', defines=gd,
             what='bits_init(offset): position of bit 32*offset', functions=['bits_init'], expect=['bits_init\\(offset\\)'], replayable=True))
        A(Ob(name=f'expand.attach_detach.{gran}', props=['C09', 'C10', 'C08', 'C12'], kind='bounded', harness='h_expand.c', entry='h_attach_detach', defines=gd,
             bound='input_q holds <= 2 blocks (attach() walks it); block sizes, offsets, buffered bits, words consumed symbolic',
             what='attach() finds the block containing the word offset and delimits its unread words; detach() returns exactly the absolute bit position where the reader '
                  'stopped and its canonical position, independent of block boundaries',
             functions=['attach', 'detach', 'can_attach'], flags=['--unwind', '4', '--unwinding-assertions'], assumed=MONX,
             expect=['detach: the absolute bit position is exactly', 'detach: pos is the canonical position'], timeout=900))
    XB2 = []
    for fn, entry, pr, what, exp, can in XB:
        if fn != 'do_parse':
            XB2.append((fn, fn, entry, pr, what, exp, can, {}))
            continue
        for rvn in ('MORE', 'FINISH', 'OK', 'ERR_HEADER', 'ERR_STRMCRC', 'ERR_EOF'):
            d = {'DP_RV': rvn, 'DP_RV_MORE': '0', 'DP_RV_FINISH': '0', 'DP_RV_OK': '0'}
            if 'DP_RV_' + rvn in d:
                d['DP_RV_' + rvn] = '1'
            e = {'MORE': [], 'FINISH': [exp[1]], 'OK': [exp[2]]}.get(rvn, [exp[0]])
            XB2.append(('do_parse.' + rvn, fn, entry, pr, what + f' [instance: parse() returns {rvn}]', e, can if rvn.startswith('ERR') or rvn == 'FINISH' else [], d))
    for oname, fn, entry, pr, what, exp, can, defs in XB2:
        A(Ob(name='expand.' + oname, defines=defs, props=pr, kind='bounded', bound='queue lengths of input_q, retr_q, scan_q, unord_q <= 2 (the code loops over them); worker count, offsets, positions, block contents and all callee results symbolic',
             harness='h_expand.c', entry=entry, what=what, functions=[fn, 'attach', 'detach', 'advance', 'can_attach'],
             flags=['--unwind', '4', '--unwinding-assertions'], assumed=MONX, expect=exp + ['monitor invariant I_x holds'], canaries=can, timeout=1200,
             ignore=NULLDIFF))
    for fn, entry, pr, what, exp, can in XT:
        A(Ob(name='expand.' + fn, props=pr, kind='proof', harness='h_expand.c', entry=entry, what=what, functions=[fn],
             flags=['--unwind', '12', '--unwinding-assertions'], assumed=MONX, expect=exp, canaries=can))
    # ---------------- main.c
    FS = ['POSIX stubs (lstat/open/fstat/close/unlink/fchown/fchmod/futimens) return every outcome; O_EXCL semantics assumed',
          'stdio stubs (fprintf/vfprintf/fflush) return any value', 'bailout()/_exit() are _Noreturn (record + assume(0))',
          'string functions are plain-loop stubs']
    NB = 'operand names up to 7 characters (covers every suffix incl. whole-name-is-suffix)'
    A(Ob(name='main.suffix_compress', props=['C17'], kind='bounded', bound=NB, harness='h_main.c', entry='h_suffix_compress',
         what='suffix_xform(name, 0) is true exactly for names ending in .bz2 .tbz .tbz2 .tz2 (reference written from the man page)',
         functions=['suffix_xform'], flags=['--unwind', '14', '--unwinding-assertions'], expect=['suffix_xform\\(name,0\\): true exactly'],
         replayable=True, assumed=FS))
    A(Ob(name='main.suffix_decompress', props=['C17'], kind='bounded', bound=NB, harness='h_main.c', entry='h_suffix_decompress',
         what='suffix_xform(name, &out) yields the documented decompressed name in a buffer of exactly length+1 bytes',
         functions=['suffix_xform'], flags=['--unwind', '14', '--unwinding-assertions'], expect=['decompressed name follows the documented'],
         replayable=True, assumed=FS))
    A(Ob(name='main.cleanup', props=['C16', 'C07'], kind='proof', harness='h_main.c', entry='h_cleanup',
         what='cleanup(): from any state satisfying J the partial output (if any) is unlinked, the tracked path cleared, nothing else touched',
         functions=['cleanup'], flags=['--unwind', '14', '--unwinding-assertions'], expect=['cleanup\\(\\): no partial output file remains'], assumed=FS))
    A(Ob(name='main.input_init', props=['C17', 'C16'], kind='bounded', bound=NB, harness='h_main.c', entry='h_input_init',
         what='input_init(): documented admission rules (lstat failure / not regular / >1 link without -k / compressed suffix when compressing -> '
              'skipped with warning and never opened); admitted operand opened once; no file-system effect',
         functions=['input_init', 'suffix_xform', 'warn', 'warnx'], flags=['--unwind', '14', '--unwinding-assertions'],
         expect=['compressing: an operand with a compressed suffix', 'more than one link is skipped', 'not a regular file is skipped'], assumed=FS))
    A(Ob(name='main.input_init_stdin', props=['C17'], kind='proof', harness='h_main.c', entry='h_input_init_stdin',
         what='input_init(NULL): standard input', functions=['input_init'], flags=['--unwind', '14', '--unwinding-assertions'],
         expect=['no operand: standard input'], assumed=FS))
    A(Ob(name='main.output_init', props=['C17', 'C16'], kind='bounded', bound=NB, harness='h_main.c', entry='h_output_init',
         what='output_init(): O_WRONLY|O_CREAT|O_EXCL with mode st_mode&0600 while signals are blocked; unlink(existing) only under -f; name by the '
              'documented rules; J (tracked path <=> partial output) holds on every return; -c/-t create nothing',
         functions=['output_init', 'suffix_xform', 'xmalloc'], flags=['--unwind', '14', '--unwinding-assertions'],
         expect=['output name follows the documented suffix rules', 'output is created exclusively', 'output_init: J holds'], assumed=FS))
    A(Ob(name='main.output_regf_uninit', props=['C17', 'C16'], kind='proof', harness='h_main.c', entry='h_output_regf_uninit',
         what='output_regf_uninit(): fchown -> fchmod(st_mode&0777 iff fchown succeeded) -> futimens({atime,mtime}) -> close; returns only with the '
              'output closed complete and the path cleared; close failure is fatal with J intact',
         functions=['output_regf_uninit', 'warnx', 'warn', 'failx'], flags=['--unwind', '14', '--unwinding-assertions'],
         expect=['output is closed only after ownership', 'permission bits are transferred', 'fatal path: tracked output path'], assumed=FS))
    for om, dc in (('OM_REGF', 0), ('OM_REGF', 1), ('OM_STDOUT', 0), ('OM_STDOUT', 1), ('OM_DISCARD', 1)):
      A(Ob(name=f'main.operand_loop.{om}.{"d" if dc else "z"}', props=['C16', 'C17', 'C18', 'C07', 'C21'], kind='bounded', defines={'MAIN_OM': om, 'MAIN_DECOMPRESS': str(dc)},
         bound='one loop iteration from an arbitrary between-operands state (any options, any earlier warning; operand name of 2 symbolic characters, symbolic stat data, every syscall outcome); '
               'the end-of-operand assertions re-establish that state, so the operand count is not bounded; instance: output mode ' + om + (', decompressing' if dc else ', compressing'),
         harness='h_main.c', entry='h_main',
         what='main(): per operand cli..sti balanced on every path; work() runs with signals blocked and J; input unlinked only after the output is '
              'closed complete and only when writing files without -k; every fatal path has J; no option changes between operands; exit status 4 iff warned else 0',
         functions=['main', 'input_init', 'output_init', 'output_regf_uninit', 'input_oprnd_rm', 'input_uninit', 'suffix_xform', 'warn*/fail* (DEF)', 'log_generic'],
         flags=['--unwind', '14', '--unwinding-assertions'], timeout=1200,
         expect=['operand end: input removed only after', 'operand end: signals are unblocked', 'normal exit status is 4 iff', 'input operand is removed only after its output',
                 'fatal path: tracked output path', 'operand end: no option changed'],
         canaries=['CANARY exit status 4', 'CANARY exit status 0'],
         assumed=FS + ['opts_setup(): assumed contract (any options, 0..2 operands); work(): stub asserting its call-site obligations']))
    A(Ob(name='main.reporters', props=['C07', 'C21', 'C17'], kind='proof', harness='h_main.c', entry='h_reporters',
         what='DEF reporters: fail/failf/failx/failfx always reach bailout() and never return; a diagnostic is printed unless the errno argument is '
              'EPIPE or EFBIG (then none); warn* set the warning flag, info* do not',
         functions=['fail', 'failf', 'failx', 'failfx', 'warn', 'warnx', 'warnfx', 'info', 'infox', 'log_generic'],
         flags=['--unwind', '6', '--unwinding-assertions'],
         expect=['a fatal reporter prints a diagnostic unless', 'EPIPE/EFBIG diagnostics are suppressed', 'failfx never returns'],
         canaries=['CANARY fatal reporter reaches bailout'], replayable=False, assumed=FS))
    OPTS_WHAT = ('opts_setup() result (decompress, outmode, level, -f -k -u, operand list) equals a model of the documented rules: invocation-name '
                 'defaults, LBZIP2 then BZIP2 then BZIP tokens before the command line, last of -d/-z wins and cancels -t, -t implies -d, -c/-t conflict fails')
    OPTS_ASSUMED = FS + ['getenv/strtok: harness stubs (one separator-free token per variable)', 'sysconf: arbitrary result; isatty: not a terminal',
                         'malloc never fails (--no-malloc-may-fail): the out-of-memory exit is not part of C22']
    OPTS_FLAGS = ['--no-malloc-may-fail', '--unwind', '7', '--unwindset', 'strcmp.0:19,strcpy.0:19', '--unwinding-assertions']
    OPTS_EXCL = 'one separator-free token per variable; options with arguments (-n/-m) and -h/-V excluded; stdin/stdout not terminals'

    def opts_ob(name, tup, extra, bound, tier):
        d = {'OPT_E0': str(tup[0]), 'OPT_E1': str(tup[1]), 'OPT_E2': str(tup[2]), 'OPT_A1': str(tup[3]), 'OPT_A2': str(tup[4])}
        d.update(extra)
        A(Ob(name=name, props=['C22'], kind='bounded', tier=tier, defines=d, bound=bound + '; ' + OPTS_EXCL, harness='h_main.c', entry='h_opts_setup',
             what=OPTS_WHAT, functions=['opts_setup', 'opts_outmode', 'opts_decompress'], flags=OPTS_FLAGS, checks=[], timeout=900,
             expect=['mode: invocation name', 'operands: exactly the non-option tokens', 'opts_setup fails only where'], replayable=True, assumed=OPTS_ASSUMED))
    # (a) transition instances: one token (argv[1]) from EVERY prior option state
    for i, t in enumerate(OPT_MENU):
        opts_ob(f'main.opts_setup.step.{i:02d}', (0, 0, 0, i, 0), {'OPT_PRESENT': '8', 'OPT_SYMSTATE': ''},
                f'single command-line token {t} applied to every prior option state (mode, output mode, level, -f -k -u)', 'quick')
        opts_ob(f'main.opts_setup.envstep.{i:02d}', (0, i, 0, 0, 0), {'OPT_PRESENT': '2', 'OPT_SYMSTATE': ''},
                f'single BZIP2 token {t} applied to every prior option state', 'quick')
    # (b) invocation names alone
    opts_ob('main.opts_setup.names', (0, 0, 0, 0, 0), {'OPT_PRESENT': '0'}, 'no tokens, all 7 invocation names', 'quick')
    # (c) order/composition: all five tokens present, 7 invocation names; (d) the same tuples with every sub-selection (thorough)
    for k, tup in enumerate(opts_tuples()):
        names = tuple(OPT_MENU[i] for i in tup)
        opts_ob(f'main.opts_setup.seq.{k:02d}', tup, {'OPT_PRESENT': '31'}, 'token sequence LBZIP2=%s BZIP2=%s BZIP=%s argv=%s %s, 7 invocation names' % names, 'quick')
        opts_ob(f'main.opts_setup.sub.{k:02d}', tup, {}, 'token tuple LBZIP2=%s BZIP2=%s BZIP=%s argv=%s %s: every sub-selection of the five tokens x 7 invocation names' % names, 'thorough')
    # ---------------- signals.c
    SG = ['POSIX signal calls (pthread_sigmask/sigaction/sigpending/kill/sigsuspend) replaced by a ghost signal-state model; '
          'signal delivery is atomic with respect to that state', 'cleanup() stub (proved separately in main.cleanup)', '_exit/pthread_exit are _Noreturn']
    A(Ob(name='signals.bailout', props=['C07', 'C16', 'C21'], kind='proof', harness='h_signals.c', entry='h_bailout',
         what='bailout(): main thread -> cleanup() strictly before SIGPIPE/SIGXFSZ are unblocked, then _exit(1); other thread -> promote every pending '
              'SIGPIPE/SIGXFSZ, then SIGUSR1, then pthread_exit, never cleanup; never returns; never _exit(0)',
         functions=['bailout', 'promote', 'xraise', 'xmask', 'xpending', 'xmember', 'xempty'], flags=['--unwind', '6', '--unwinding-assertions'],
         expect=['unblocked in the main thread only after cleanup', 'SIGUSR1 is sent only after every', 'abnormal termination exits with status 1'],
         canaries=['CANARY _exit reached'], assumed=SG))
    A(Ob(name='signals.halt', props=['C16', 'C07', 'C21'], kind='proof', harness='h_signals.c', entry='h_halt',
         what='halt(): waits with the mask saved by cli(); SIGUSR2 -> returns; SIGUSR1 -> bailout(); SIGINT/SIGTERM -> cleanup(), default action, '
              're-raise, unblock, _exit(1)',
         functions=['halt', 'terminate', 'cli', 'signal_handler', 'bailout', 'xaction'], flags=['--unwind', '6', '--unwinding-assertions'],
         expect=['re-raised only after cleanup', 'halt\\(\\) returns normally only for SIGUSR2', 'the suspend mask lets'], canaries=['CANARY _exit reached'], assumed=SG))
    A(Ob(name='signals.cli_sti', props=['C16', 'C18'], kind='proof', harness='h_signals.c', entry='h_cli_sti',
         what='cli() blocks the four handled signals saving the previous mask and installs the handler; sti() restores defaults and the mask',
         functions=['cli', 'sti', 'xaction', 'xmask'], flags=['--unwind', '6', '--unwinding-assertions'], expect=['sti\\(\\): mask restored'], assumed=SG))
    A(Ob(name='signals.setup', props=['C16', 'C21'], kind='proof', harness='h_signals.c', entry='h_setup_signals',
         what='setup_signals(): handled signals unblocked, SIGPIPE/SIGXFSZ blocked', functions=['setup_signals'],
         flags=['--unwind', '6', '--unwinding-assertions'], expect=['SIGPIPE and SIGXFSZ blocked'], assumed=SG))
    A(Ob(name='process.work',props=['C19', 'C07', 'C09', 'C03', 'C18'], kind='proof', harness='h_process.c', entry='h_work',
         what='work(): input starting with BZh1-9 (4 bytes read) always goes to the decompressor with bs100k = digit; anything else is copied '
              '(exactly the 0-4 bytes read are written first, from the header buffer) iff -f and output is stdout, otherwise failf; '
              'set_memory_constraints gives the documented slot counts/granularities; nothing is started twice',
         functions=['work', 'set_memory_constraints'], replace=['xread', 'xwrite', 'schedule', 'copy'], flags=['--unwind', '20'],
         expect=['work\\(\\): exactly one of', r'schedule\.precondition', r'copy\.precondition', r'xread\.precondition', r'xwrite\.precondition',
                 'work\\(\\): failf\\(\\) only for'],
         replayable=True, stream_replay='cdf', trace_vars=['g_work_hdr', 'g_work_vacant'],
         assumed=['schedule()/copy(): thread-spawning drivers replaced by assumed contracts whose requires clauses are the obligations',
                  'xread()/xwrite(): own contracts (proved in process.xread / process.xwrite)', 'info(): no-op stub']))
    # C08 is the union of the safety checks of every harness; in its QUICK tier the obligations whose main content belongs to another property
    # and that take minutes (scheduler task bodies, prefix-decoding agreement, inverse BWT, MTF fast path, operand loop) are left to the thorough tier
    for o in obs:
        if 'C08' in o.props and (o.name.startswith(('expand.do_', 'expand.attach_detach', 'decode.prefix_decode', 'decode.ibwt', 'decode.mtf_fast', 'compress.do_', 'process.source_thread',
                                                     'process.sink_thread', 'decode.make_tree_kraft', 'encode.do_mtf', 'decode.emit_step', 'encode.group_count'))):
            o.slow_for = ['C08']
    return obs
