#!/usr/bin/env python3
"""Obligation table: which harness instances decide which property."""
import os, sys
sys.path.insert(0, os.path.join(os.path.dirname(os.path.abspath(__file__)), 'lib'))
from engine import Ob  # noqa: E402

HOOK_COMMITS = []
NOTES = ('Technique family: contract-based deductive verification of the real C code with CBMC 6.11 '
         '(function contracts via goto-instrument --dfcc, loop contracts, lemma harnesses); bounded stand-ins '
         'are labelled bounded in every evidence file and never counted as discharged proof obligations. '
         'See DESIGN.md.')

NOT_BUILT = 'check not built yet in this round (planned in DESIGN.md §4); not claimed until its obligations run'

PROPS = {}


def prop(pid, **kw):
    PROPS[pid] = kw


for _p in ['C01', 'C02', 'C03', 'C04', 'C05', 'C06', 'C07', 'C08', 'C09', 'C10', 'C11', 'C12',
           'C15', 'C16', 'C17', 'C18', 'C19', 'C20', 'C21', 'C22']:
    prop(_p, not_applicable=NOT_BUILT)

prop('C13', not_applicable='the observable is resident set size of a running process; no function contract can express '
     'RSS (allocator, thread stacks, page residency) and a contract-level surrogate would decide a different '
     'statement (DESIGN.md §6)')

prop('C14', level='proof',
     text='Lemma harnesses prove for every bit history that mini_dfa implements the longest-border (KMP) automaton of the '
          'literal pattern 0x314159265359 and that big_dfa is its 8-step composition with absorbing ACCEPT (all 49x256 '
          'entries); the scan() routine itself is checked against a naive matcher on a bounded window (labelled bounded).',
     note='Trusted: CBMC/SAT back end; the induction over bit histories that lifts the step lemma to all streams is a '
          'paper argument; scan() word loop only bounded (its loop shares a cycle with goto again, CBMC loop contracts cannot attach).',
     technique='CBMC lemma harnesses over scantab.h (exhaustive, loop-free after constant unwinding) + bounded check of scan()',
     design_ref='§4 C14',
     undecided=['scan() beyond the stated window bound'],
     assumptions=['induction principle over bit histories (paper step)'])


def all_obligations():
    obs = []
    A = obs.append

    # ---------------- C14 tables
    A(Ob(name='scantab.lemma_mini', props=['C14', 'C10'], kind='lemma', harness='h_scantab.c', entry='h_lemma_mini',
         what='mini_dfa[s][b] is the longest-border step of pattern 0x314159265359 for every history (<=60 bits) and bit',
         functions=['mini_dfa (table)'], flags=['--unwind', '50', '--unwinding-assertions'],
         expect=['mini_dfa step equals', 'ACCEPT is the pattern length'], replayable=True, replay_src='scantab.h'))
    A(Ob(name='scantab.lemma_mini_base', props=['C14'], kind='lemma', harness='h_scantab.c', entry='h_lemma_mini_base',
         what='state 0 is the state of the empty history', functions=['mini_dfa (table)'],
         flags=['--unwind', '50', '--unwinding-assertions'], expect=['state of empty history'], replayable=True))
    A(Ob(name='scantab.lemma_big', props=['C14', 'C10'], kind='lemma', harness='h_scantab.c', entry='h_lemma_big',
         what='big_dfa[s][c] equals eight mini_dfa steps, ACCEPT absorbing, all 49x256 entries',
         functions=['big_dfa (table)'], flags=['--unwind', '10', '--unwinding-assertions'],
         expect=['big_dfa entry equals'], replayable=True, replay_src='scantab.h'))
    return obs
