/* do_mtf() (src/encode.c): move-to-front + zero-run (RUNA/RUNB) coding of the BWT output, checked by decoding its result with
   the inverse written from the bzip2 format (C01 O1.3).  Bounded: blocks of at most MTF_N bytes over MTF_A distinct values. */
#include "verif.h"
#include "src/encode.c"

int32_t divbwt(uint8_t *T, int32_t *SA, int32_t *bucket, int32_t n) { int32_t r; return r; }

#ifndef MTF_N
#define MTF_N 5
#endif
#ifndef MTF_A
#define MTF_A 3            /* distinct byte values in use: 0 .. MTF_A-1 (the in-use map is the identity on them) */
#endif
#define MTF_EOB (MTF_A + 1)   /* symbols: 0 = RUNA, 1 = RUNB, 2..MTF_A = list positions 1..MTF_A-1, MTF_A+1 = end of block */

void h_do_mtf(void)
{
  int32_t bwt[MTF_N + 2]; uint32_t freq[MTF_EOB + 1]; uint8_t cmap[256];
  V_IN_ARR(uint8_t, x, MTF_N);
  V_IN(int, n);
  unsigned i, j;
  V_ASSUME(n >= 1 && n <= MTF_N);
  for (i = 0; i < 256; i++) cmap[i] = (uint8_t)(i < MTF_A ? i : 0);
  for (i = 0; i < MTF_N; i++) { V_ASSUME(x[i] < MTF_A); bwt[i] = x[i]; }
  bwt[MTF_N] = bwt[MTF_N + 1] = 0;
  uint32_t nm = do_mtf(bwt, freq, cmap, n, MTF_EOB);
  const uint16_t *mtfv = (const void *)bwt;
  /* ---- inverse, from the format: RUNA/RUNB are digits 1/2 of a bijective base-2 number of repetitions of the list front */
  uint8_t list[MTF_A]; for (i = 0; i < MTF_A; i++) list[i] = (uint8_t)i;
  uint8_t out[MTF_N + 2]; unsigned ol = 0, run = 0, weight = 1; int bad = 0, ended = 0;
  unsigned cnt[MTF_EOB + 1]; for (i = 0; i <= MTF_EOB; i++) cnt[i] = 0;
  V_ASSERT(nm >= 1 && nm <= (uint32_t)n + 1, "do_mtf: at most one symbol per input byte plus the end-of-block symbol");
  for (i = 0; i < MTF_N + 1; i++) if (i < nm && !ended) {
    unsigned s = mtfv[i];
    if (s > MTF_EOB) { bad = 1; break; }
    cnt[s]++;
    if (s <= 1) { run += (s + 1) * weight; weight <<= 1; continue; }
    for (j = 0; j < MTF_N; j++) if (j < run && ol < MTF_N + 1) out[ol++] = list[0];
    run = 0; weight = 1;
    if (s == MTF_EOB) { ended = 1; if (i + 1 != nm) bad = 1; break; }
    { unsigned pos = s - 1; uint8_t v = list[pos]; for (j = MTF_A - 1; j > 0; j--) if (j <= pos) list[j] = list[j - 1]; list[0] = v; if (ol < MTF_N + 1) out[ol++] = v; }
  }
  V_ASSERT(!bad && ended, "do_mtf: the symbol sequence is well formed and ends with the end-of-block symbol");
  V_ASSERT(ol == (unsigned)n, "do_mtf: decoding the symbols yields as many bytes as the block holds");
  { int same = 1; for (i = 0; i < MTF_N; i++) if (i < (unsigned)n && out[i] != x[i]) same = 0; V_ASSERT(same, "do_mtf: decoding the symbols (inverse zero-run and move-to-front of the format) reproduces the block"); }
  { int same = 1; for (i = 0; i <= MTF_EOB; i++) if (freq[i] != cnt[i]) same = 0; V_ASSERT(same, "do_mtf: the symbol frequencies handed to the table builder are the counts of the symbols written"); }
  if (n == MTF_N && cnt[0] + cnt[1] + 1 == nm) V_CANARY("whole block is one zero run");
  if (n == MTF_N && nm == MTF_N + 1) V_CANARY("no zero run at all");
}

#ifdef VERIF_REPLAY
int main(void) { HARNESS(); puts("REPLAY-PASS"); return 0; }
#endif
