/* Common harness vocabulary.  One harness text serves two builds:
   - under goto-cc/cbmc (default): inputs are nondeterministic, V_ASSUME is a
     precondition, V_ASSERT an obligation, V_CANARY an assertion that MUST FAIL
     (it proves the program point is reachable under the preconditions; the
     runner treats a canary that "succeeds" as a vacuous run);
   - with -DVERIF_REPLAY (gcc, native): inputs come from VAL_<name> macros
     generated from the verifier's counterexample, V_ASSUME aborts with status 3
     if the replayed values violate a precondition, V_ASSERT prints REPLAY-FAIL
     and exits 1 when the real code breaks the same obligation. */
#ifndef VERIF_H
#define VERIF_H

#ifdef VERIF_REPLAY
#include <stdio.h>
#include <stdlib.h>
#include "replay_vals.h"
#define V_ASSUME(c) do { if (!(c)) { fprintf(stderr, "REPLAY: precondition not met: %s\n", #c); exit(3); } } while (0)
#define V_ASSERT(c, msg) do { if (!(c)) { printf("REPLAY-FAIL %s\n", msg); fflush(stdout); exit(1); } } while (0)
#define V_CANARY(msg) ((void)0)
#define V_COVER(c) ((void)0)
#define V_IN(type, name) type name = (type)(VAL_##name)
#define V_IN_ARR(type, name, n) type name##_arr[n] = VAL_##name; type *name = name##_arr
#else
#define V_ASSUME(c) __CPROVER_assume(c)
#define V_ASSERT(c, msg) __CPROVER_assert((c), msg)
#define V_CANARY(msg) __CPROVER_assert(0, "CANARY " msg)
#define V_COVER(c) __CPROVER_cover(c)
#define V_IN(type, name) type name; { type name##_nd; name = name##_nd; }
#define V_IN_ARR(type, name, n) struct name##_s { type a[n]; } name##_nd, name##_cp; name##_cp = name##_nd; type *name = name##_cp.a
#endif

#endif
