/* emit() (src/decode.c): the resumable run-length decoder against the un-RLE rule of the bzip2 format, for every block of
   up to EMIT_N run-length-encoded bytes and every way of cutting the output into up to three buffers
   (C05 O5.7, C06 O6.5, C09 O9.2, C15 O15.3). */
#include "verif.h"
#include "src/decode.c"

int g_delta_len0, g_delta_stop, g_delta_seen; unsigned g_delta_win;
int g_mt_stop, g_mt_verdict; unsigned g_sel_win; int g_sel_seen, g_sel_stop, g_group_stop, g_eob_ok; unsigned g_nsel_read; int g_no_mtfv;
int g_hdr_stop; void verif_retrieve_header_done(struct decoder_state *ds, unsigned a, unsigned b, unsigned c, const unsigned char *m) { }
void *xmalloc(size_t n) { return malloc(n); }

#ifndef EMIT_N
#define EMIT_N 6            /* run-length encoded bytes in the block */
#endif
#define EMIT_VALS 6         /* byte values 0..5 (also bounds a run count to 5, i.e. the expansion loops) */
#define EMIT_OUT (EMIT_N + EMIT_VALS)

/* reference: un-RLE of x[0..n) per the format -- after four equal bytes the next byte is a repeat count */
struct unrle { uint8_t out[EMIT_OUT + 8]; unsigned len; int missing_count; uint32_t crc; };
static void spec_unrle(const uint8_t *x, unsigned n, struct unrle *r)
{
  unsigned i = 0, run = 0, k; int prev = -1;
  r->len = 0; r->missing_count = 0; r->crc = 0xFFFFFFFFu;
  while (i < n) {
    uint8_t c = x[i++];
    r->out[r->len++] = c; r->crc = (r->crc << 8) ^ crc_table[(r->crc >> 24) ^ c];
    run = (c == prev) ? run + 1 : 1; prev = c;
    if (run == 4) {
      if (i == n) { r->missing_count = 1; return; }
      uint8_t cnt = x[i++];
      for (k = 0; k < cnt; k++) { r->out[r->len++] = c; r->crc = (r->crc << 8) ^ crc_table[(r->crc >> 24) ^ c]; }
      run = 0; prev = -1;
    }
  }
  r->crc ^= 0xFFFFFFFFu;
}

void h_emit(void)
{
  struct decoder_state ds;
  static uint32_t tt[EMIT_N + 1];
  V_IN_ARR(uint8_t, x, EMIT_N);
  V_IN(unsigned, n);
  V_IN(unsigned, m1);
  V_IN(unsigned, m2);
  unsigned i;
  uint8_t out[3][EMIT_OUT + 8];
  uint8_t all[EMIT_OUT + 8]; unsigned got = 0;
  struct unrle ref;
  V_ASSUME(n >= 1 && n <= EMIT_N && m1 >= 1 && m1 <= EMIT_OUT && m2 >= 1 && m2 <= EMIT_OUT);
#ifdef EMIT_TWO
  V_ASSUME(m2 == EMIT_OUT);      /* two-buffer instance: the second buffer takes the rest */
#endif
  for (i = 0; i < EMIT_N; i++) V_ASSUME(x[i] < EMIT_VALS);
  /* IBWT list as decode() leaves it (linear form of the randomised path): node i holds byte x[i] and points to node i+1 */
  for (i = 0; i < EMIT_N; i++) tt[i] = ((i + 1) << 8) + x[i];
  ds.tt = tt; ds.rle_state = 0; ds.rle_crc = 0xFFFFFFFFu; ds.rle_index = 0; ds.rle_avail = n; ds.rle_prev = 0; ds.rle_char = 0; ds.crc = 0;
  spec_unrle(x, n, &ref);
  unsigned sizes[3]; sizes[0] = m1; sizes[1] = m2; sizes[2] = EMIT_OUT;   /* the third buffer always has room for the rest */
  int rv = MORE; unsigned call;
  for (call = 0; call < 3 && rv == MORE; call++) {
    size_t sz = sizes[call];
    rv = emit(&ds, out[call], &sz);
    V_ASSERT(rv == OK || rv == MORE || rv == ERR_RUNLEN, "emit returns OK, MORE or ERR_RUNLEN");
    V_ASSERT(rv != MORE || sz == 0, "MORE only when the output buffer is full");
    V_ASSERT(sz <= sizes[call], "emit never reports more free space than it was given");
    if (rv != ERR_RUNLEN) { unsigned w = sizes[call] - (unsigned)sz, k; for (k = 0; k < EMIT_OUT; k++) if (k < w && got < EMIT_OUT + 8) all[got++] = out[call][k]; }
  }
  if (ref.missing_count) {
    V_ASSERT(rv == ERR_RUNLEN, "a block that ends right after four equal bytes (no repeat count) is rejected with ERR_RUNLEN wherever the output buffers are cut");
    V_CANARY("missing count rejected");
  } else {
    V_ASSERT(rv == OK, "a well-formed block is emitted completely (three buffers suffice by construction)");
    V_ASSERT(got == ref.len, "emit writes exactly as many bytes as the un-RLE rule yields, whatever the buffer cuts");
    { int same = 1; for (i = 0; i < EMIT_OUT; i++) if (i < ref.len && all[i] != ref.out[i]) same = 0; V_ASSERT(same, "the bytes written are the reference decoding, whatever the buffer cuts"); }
    V_ASSERT(ds.crc == ref.crc, "the CRC reported for the block is the CRC of the bytes written");
    if (call == 3) V_CANARY("block emitted over three buffers");
    if (call == 1) V_CANARY("block emitted into one buffer");
  }
}


/* ---------------------------------------------------------------------------------------------------------------
   One call of emit() from every state it can save (resumption), against the un-RLE rule applied to the decoder's
   LOGICAL state.  What the saved fields mean (derived from where emit() stores them, stated here as the contract):
     rle_state 0      nothing pending, no run context (start of block)
     rle_state 5      byte rle_char fetched but not yet written, no run context
     rle_state 1,2,3  byte rle_char fetched but not yet written; rle_state equal bytes rle_prev were written just before it
     rle_state 4      rle_char more copies of rle_prev are still to be written (a repeat count that did not fit)
   rle_avail = run-length-encoded bytes not yet fetched; rle_index = list node of the last fetched byte.               */
#ifndef EMIT_S
#define EMIT_S 3
#endif
#ifndef EMIT_REST
#define EMIT_REST 3        /* run-length encoded bytes still unfetched */
#endif
#define ST_OUT (EMIT_REST + 2 * EMIT_VALS + 2)
struct lstate { int pending; unsigned k; uint8_t c, d; unsigned cnt; };   /* pending: c is fetched, unwritten; k equal bytes d written; cnt: copies of d still owed */
static int lstate_code(const struct lstate *l) { return l->cnt ? 4 : !l->pending ? 0 : l->k == 0 ? 5 : (int)l->k; }

void h_emit_step(void)
{
  struct decoder_state ds;
  static uint32_t tt[EMIT_REST + 2];
  V_IN_ARR(uint8_t, x, EMIT_REST + 1);
  V_IN(unsigned, c0);
  V_IN(unsigned, d0);
  V_IN(unsigned, m);
  V_IN(uint32_t, crc0);
  unsigned i, n = EMIT_REST;
  uint8_t out[ST_OUT + 2];
  V_ASSUME(c0 < EMIT_VALS && d0 < EMIT_VALS && m >= 1 && m <= ST_OUT);
  if (EMIT_S == 4) V_ASSUME(c0 >= 1);                 /* state 4 is saved only with copies still owed */
  for (i = 0; i < EMIT_REST + 1; i++) V_ASSUME(x[i] < EMIT_VALS);
  for (i = 0; i < EMIT_REST + 1; i++) tt[i + 1] = ((i + 2) << 8) + x[i];     /* node 0 is the last fetched node; nodes 1.. hold the unfetched bytes */
  tt[0] = (1u << 8) + c0;
  ds.tt = tt; ds.rle_state = EMIT_S; ds.rle_crc = crc0; ds.rle_index = tt[0]; ds.rle_avail = n; ds.rle_prev = d0; ds.rle_char = c0; ds.crc = 0;
  /* ---- reference: continue un-RLE from the logical state */
  struct lstate L; L.pending = (EMIT_S == 1 || EMIT_S == 2 || EMIT_S == 3 || EMIT_S == 5); L.k = (EMIT_S >= 1 && EMIT_S <= 3) ? EMIT_S : 0;
  L.c = (uint8_t)c0; L.d = (uint8_t)d0; L.cnt = EMIT_S == 4 ? c0 : 0;
  uint8_t want[ST_OUT + 2]; unsigned wl = 0, fetched = 0; uint32_t crc = crc0; int verdict = -1;   /* -1 running, OK, MORE, ERR_RUNLEN */
  unsigned step;
  for (step = 0; step < 2 * ST_OUT + 4 && verdict == -1; step++) {
    if (L.cnt) {                                                    /* owed copies first */
      if (wl == m) { verdict = MORE; break; }
      want[wl++] = L.d; crc = (crc << 8) ^ crc_table[(crc >> 24) ^ L.d]; L.cnt--;
      continue;
    }
    if (!L.pending) {                                               /* fetch the next run-length encoded byte */
      if (fetched == n) { verdict = OK; break; }
      L.c = x[fetched++]; L.pending = 1;
    }
    if (wl == m) { verdict = MORE; break; }                         /* no room: the fetched byte stays pending */
    want[wl++] = L.c; crc = (crc << 8) ^ crc_table[(crc >> 24) ^ L.c]; L.pending = 0;
    if (L.k > 0 && L.c == L.d) L.k++; else { L.d = L.c; L.k = 1; }
    if (L.k == 4) {                                                 /* four equal bytes: the next byte is a repeat count */
      if (fetched == n) { verdict = ERR_RUNLEN; break; }
      L.cnt = x[fetched++]; L.k = 0;
    }
  }
  size_t sz = m;
  int rv = emit(&ds, out, &sz);
  V_ASSERT(verdict != -1, "reference finished");
  V_ASSERT(rv == verdict, "emit returns OK when the block is finished, MORE when the buffer filled first, ERR_RUNLEN when four equal bytes end the block without a count");
  if (rv != ERR_RUNLEN) {
    V_ASSERT(m - (unsigned)sz == wl, "emit writes exactly the bytes the un-RLE rule yields until the buffer is full or the block ends");
    { int same = 1; for (i = 0; i < ST_OUT; i++) if (i < wl && out[i] != want[i]) same = 0; V_ASSERT(same, "the bytes written are the reference decoding from the resumed state"); }
  }
  if (rv == OK) {
    V_ASSERT(ds.crc == (crc ^ 0xFFFFFFFFu), "the reported block CRC is the running CRC of all bytes written, complemented");
    V_CANARY("block finished");
  }
  if (rv == MORE) {
    V_ASSERT(sz == 0, "MORE only with a full buffer");
    V_ASSERT(ds.rle_state == lstate_code(&L) && ds.rle_crc == crc && ds.rle_avail == n - fetched, "the state saved at a full buffer is the logical decoder state (run context, pending byte, bytes left, running CRC)");
    V_ASSERT(ds.rle_state == 0 || ((ds.rle_state == 4 ? ds.rle_char == L.cnt : ds.rle_char == L.c) && (ds.rle_state == 5 || ds.rle_prev == L.d)), "saved pending byte / owed copies and run byte");
    V_ASSERT((ds.rle_index >> 8) == fetched + 1, "saved list position is the next unfetched byte");
#if EMIT_S == 4 || (EMIT_S != 0 && EMIT_REST >= 1) || (EMIT_S == 0 && EMIT_REST >= 2)      /* otherwise a buffer of >= 1 byte always suffices */
    V_CANARY("suspended at a full buffer");
#endif
  }
}


/* ---------------------------------------------------------------------------------------------------------------
   decode() (inverse BWT list construction, C06 O6.4 / C01 O1.2 decoder side): for every text T of up to IBWT_N bytes, feeding the
   Burrows-Wheeler transform of T (computed here naively by sorting rotations) through the real decode() and walking the list the
   way emit() does reproduces T -- on the ordinary path and on the in-situ path used for randomised blocks. */
#ifndef IBWT_N
#define IBWT_N 4
#endif
#define IBWT_A 3           /* byte values 0..2 */
static int rot_less(const uint8_t *t, unsigned n, unsigned a, unsigned b)      /* rotation a < rotation b */
{
  unsigned k; for (k = 0; k < IBWT_N; k++) if (k < n) { uint8_t x = t[(a + k) % n], y = t[(b + k) % n]; if (x != y) return x < y; } return 0;
}
void h_decode_ibwt(void)
{
  struct decoder_state ds; static uint32_t tt[IBWT_N + 1];
  V_IN_ARR(uint8_t, T, IBWT_N);
  V_IN(unsigned, n);
  V_IN(int, rnd);
  unsigned i, j, rot[IBWT_N], idx = 0;
  V_ASSUME(n >= 1 && n <= IBWT_N);
  for (i = 0; i < IBWT_N; i++) V_ASSUME(T[i] < IBWT_A);
  /* naive BWT: sort the rotation start positions (stable selection sort), last column, row of the text itself */
  for (i = 0; i < IBWT_N; i++) rot[i] = i;
  for (i = 0; i < IBWT_N; i++) if (i < n) for (j = i + 1; j < IBWT_N; j++) if (j < n && rot_less(T, n, rot[j], rot[i])) { unsigned t = rot[i]; rot[i] = rot[j]; rot[j] = t; }
  for (i = 0; i < 256; i++) ds.ftab[i] = 0;
  for (i = 0; i < IBWT_N; i++) if (i < n) { uint8_t last = T[(rot[i] + n - 1) % n]; tt[i] = last; ds.ftab[last]++; }
  { int found = 0; for (i = 0; i < IBWT_N; i++) if (i < n && !found && !rot_less(T, n, rot[i], 0) && !rot_less(T, n, 0, rot[i])) { idx = i; found = 1; } }   /* a row equal to T */
  ds.tt = tt; ds.block_size = n; ds.bwt_idx = idx; ds.rand = (rnd != 0);
  decode(&ds);
  V_ASSERT(ds.rle_state == 0 && ds.rle_avail == n && ds.rle_crc == 0xFFFFFFFFu, "decode(): the run-length decoder is reset for the new block (state 0, all bytes available, CRC start value)");
  /* walk the list as emit() does: c = p = t[p >> 8] */
  uint32_t p = ds.rle_index; int same = 1;
  for (i = 0; i < IBWT_N; i++) if (i < n) { V_ASSERT((p >> 8) < n, "decode(): list pointers stay inside the block"); p = tt[(p >> 8) < IBWT_N ? (p >> 8) : 0]; if ((uint8_t)p != T[i]) same = 0; }
  V_ASSERT(same, "decode(): walking the list from the primary index yields the original text (inverse Burrows-Wheeler transform)");
  if (n == IBWT_N && rnd) V_CANARY("in-situ path (randomised block)");
  if (n == IBWT_N && !rnd) V_CANARY("ordinary path");
}


/* C06  Derandomisation of legacy randomised blocks (section of decode(), extracted verbatim): the toggled positions are those of the bzip2
   format -- the first at byte 617 (= first table entry - 2), each next one a table entry further, the 512-entry table used cyclically.
   Everything here is concrete (a constant table walk); the block stand-in covers the first DR_N positions, which includes the first
   wrap-around of the table at byte 136578. */
#define DR_N 138000u
void h_derandomise(void)
{
  struct decoder_state dso, *ds = &dso; static uint8_t tt[DR_N]; uint32_t i, j;
  dso.block_size = DR_N;
#include "src/extract/derandomise.inc"
  /* reference walk written from the format: cyclic index, gaps from the table.  The section toggles one strictly increasing position per
     iteration, so "every reference position is toggled" + "same number of steps, same final index and position" means the sets are equal. */
  uint32_t pos = rand_table[0] - 2u, n = 0; unsigned toggles = 0; int ok = 1;
  while (pos < DR_N) { if (tt[pos] != 1) ok = 0; toggles++; n = (n + 1) % 512u; pos += rand_table[n]; }
  V_ASSERT(ok, "derandomisation: every position prescribed by the format is toggled (first at 617, then one table entry apart, the 512 entries used cyclically)");
  V_ASSERT(i == n && j == pos, "derandomisation: the walk ends at the same table index and block position as the reference (no extra or missing toggle)");
  V_ASSERT(toggles > 256, "the stand-in block is long enough to pass entry 256 of the table");
  V_CANARY("derandomise");
}

#ifdef VERIF_REPLAY
int main(void) { HARNESS(); puts("REPLAY-PASS"); return 0; }
#endif
