/* emit() (src/decode.c): the resumable run-length decoder against the un-RLE rule of the bzip2 format, for every block of
   up to EMIT_N run-length-encoded bytes and every way of cutting the output into up to three buffers
   (C05 O5.7, C06 O6.5, C09 O9.2, C15 O15.3). */
#include "verif.h"
#include "src/decode.c"

int g_delta_len0, g_delta_stop, g_delta_seen; unsigned g_delta_win;
int g_mt_stop, g_mt_verdict; unsigned g_sel_win; int g_sel_seen, g_sel_stop, g_group_stop, g_eob_ok; unsigned g_nsel_read; int g_no_mtfv;
void *xmalloc(size_t n) { return malloc(n); }

#ifndef EMIT_N
#define EMIT_N 6            /* run-length encoded bytes in the block */
#endif
#define EMIT_VALS 6         /* byte values 0..5 (also bounds a run count to 5, i.e. the expansion loops) */
#define EMIT_OUT (EMIT_N + EMIT_VALS)

/* reference: un-RLE of x[0..n) per the format -- after four equal bytes the next byte is a repeat count */
struct unrle { uint8_t out[EMIT_OUT + 8]; unsigned len; int missing_count; uint32_t crc; };
static void spec_unrle(const uint8_t *x, unsigned n, struct unrle *r)
{
  unsigned i = 0, run = 0, k; int prev = -1;
  r->len = 0; r->missing_count = 0; r->crc = 0xFFFFFFFFu;
  while (i < n) {
    uint8_t c = x[i++];
    r->out[r->len++] = c; r->crc = (r->crc << 8) ^ crc_table[(r->crc >> 24) ^ c];
    run = (c == prev) ? run + 1 : 1; prev = c;
    if (run == 4) {
      if (i == n) { r->missing_count = 1; return; }
      uint8_t cnt = x[i++];
      for (k = 0; k < cnt; k++) { r->out[r->len++] = c; r->crc = (r->crc << 8) ^ crc_table[(r->crc >> 24) ^ c]; }
      run = 0; prev = -1;
    }
  }
  r->crc ^= 0xFFFFFFFFu;
}

void h_emit(void)
{
  struct decoder_state ds;
  static uint32_t tt[EMIT_N + 1];
  V_IN_ARR(uint8_t, x, EMIT_N);
  V_IN(unsigned, n);
  V_IN(unsigned, m1);
  V_IN(unsigned, m2);
  unsigned i;
  uint8_t out[3][EMIT_OUT + 8];
  uint8_t all[EMIT_OUT + 8]; unsigned got = 0;
  struct unrle ref;
  V_ASSUME(n >= 1 && n <= EMIT_N && m1 >= 1 && m1 <= EMIT_OUT && m2 >= 1 && m2 <= EMIT_OUT);
#ifdef EMIT_TWO
  V_ASSUME(m2 == EMIT_OUT);      /* two-buffer instance: the second buffer takes the rest */
#endif
  for (i = 0; i < EMIT_N; i++) V_ASSUME(x[i] < EMIT_VALS);
  /* IBWT list as decode() leaves it (linear form of the randomised path): node i holds byte x[i] and points to node i+1 */
  for (i = 0; i < EMIT_N; i++) tt[i] = ((i + 1) << 8) + x[i];
  ds.tt = tt; ds.rle_state = 0; ds.rle_crc = 0xFFFFFFFFu; ds.rle_index = 0; ds.rle_avail = n; ds.rle_prev = 0; ds.rle_char = 0; ds.crc = 0;
  spec_unrle(x, n, &ref);
  unsigned sizes[3]; sizes[0] = m1; sizes[1] = m2; sizes[2] = EMIT_OUT;   /* the third buffer always has room for the rest */
  int rv = MORE; unsigned call;
  for (call = 0; call < 3 && rv == MORE; call++) {
    size_t sz = sizes[call];
    rv = emit(&ds, out[call], &sz);
    V_ASSERT(rv == OK || rv == MORE || rv == ERR_RUNLEN, "emit returns OK, MORE or ERR_RUNLEN");
    V_ASSERT(rv != MORE || sz == 0, "MORE only when the output buffer is full");
    V_ASSERT(sz <= sizes[call], "emit never reports more free space than it was given");
    if (rv != ERR_RUNLEN) { unsigned w = sizes[call] - (unsigned)sz, k; for (k = 0; k < EMIT_OUT; k++) if (k < w && got < EMIT_OUT + 8) all[got++] = out[call][k]; }
  }
  if (ref.missing_count) {
    V_ASSERT(rv == ERR_RUNLEN, "a block that ends right after four equal bytes (no repeat count) is rejected with ERR_RUNLEN wherever the output buffers are cut");
    V_CANARY("missing count rejected");
  } else {
    V_ASSERT(rv == OK, "a well-formed block is emitted completely (three buffers suffice by construction)");
    V_ASSERT(got == ref.len, "emit writes exactly as many bytes as the un-RLE rule yields, whatever the buffer cuts");
    { int same = 1; for (i = 0; i < EMIT_OUT; i++) if (i < ref.len && all[i] != ref.out[i]) same = 0; V_ASSERT(same, "the bytes written are the reference decoding, whatever the buffer cuts"); }
    V_ASSERT(ds.crc == ref.crc, "the CRC reported for the block is the CRC of the bytes written");
    if (call == 3) V_CANARY("block emitted over three buffers");
    if (call == 1) V_CANARY("block emitted into one buffer");
  }
}

#ifdef VERIF_REPLAY
int main(void) { HARNESS(); puts("REPLAY-PASS"); return 0; }
#endif
