/* Monitor-invariant harnesses over src/compress.c (DESIGN 1.4): each task body and callback is verified as
   sequential code against the scheduler monitor invariant I_c.  sched_lock() lets every other thread run
   (havoc of all scheduler-protected state, constrained only by I_c); sched_unlock() and task exit must
   re-establish I_c with the resources THIS thread holds at that point as DECLARED BY THE SPEC below
   (not derived from the counter updates in the code). */
#include "verif.h"
#include "src/compress.c"
#include "c12_undef.h"
/* C12: what "the guard holds" means in this monitor model */
int g_single;                                 /* single-threaded phase (init/uninit of a run: no other thread exists) */
extern int g_held, g_task;
int verif_lock_ok(int guard) { return g_single || (guard == C12_READER_ONLY ? g_task == 5 /* T_INPUT: the reader's callback */ : g_held); }


/* ---------------- objects of other translation units */
unsigned num_worker, bs100k; bool ultra, eof;
unsigned work_units, in_slots, out_slots, total_in_slots, total_out_slots;
size_t in_granul, out_granul;

/* ---------------- ghost */
int g_held;                                   /* scheduler mutex held by this thread */
unsigned g_my_units, g_my_slots, g_my_inputs; /* resources this thread holds right now */
int g_my_seq;                                 /* this thread is the (single) sequential collector */
unsigned g_oth_units, g_oth_slots, g_oth_inputs, g_in_sink; int g_oth_seq;   /* held by all other threads / by the writer */
unsigned g_unlocks, g_locks;
int g_seq_has_input;
int g_task;                                   /* which spec table applies */
enum { T_COLLECT = 1, T_COLLECT_SEQ, T_TRANSMIT, T_REORDER, T_INPUT, T_WRITTEN };
int g_released_input, g_sink_calls;
void *g_sink_buf; size_t g_sink_size, g_sink_weight;
void *g_enq_coll, *g_enq_trans, *g_enq_reord;       /* last element enqueued per queue */
unsigned long g_enc_mbs; unsigned g_enc_cf; int g_collect_calls, g_encode_calls, g_transmit_calls;
size_t g_collect_consumed; int g_collect_full;
const unsigned char *g_collect_buf; size_t g_collect_avail;

#define CAP_COLL  total_in_slots
#define CAP_TRANS num_worker
#define CAP_REORD total_out_slots

/* the monitor invariant */
#define I_C ( \
  coll_q.size <= CAP_COLL && trans_q.size <= CAP_TRANS && reord_q.size <= CAP_REORD && \
  (uintmax_t)work_units + trans_q.size + (unfinished_work != 0) + g_oth_units + g_my_units == num_worker && \
  (uintmax_t)out_slots + reord_q.size + g_in_sink + g_oth_slots + g_my_slots == total_out_slots && \
  (uintmax_t)coll_q.size + g_oth_inputs + g_my_inputs <= total_in_slots && \
  (!collect_token) == (g_oth_seq + g_my_seq == 1) && (g_oth_seq + g_my_seq <= 1) && \
  (unfinished_work == 0 || collect_token) )

/* symbolic blocks */
/* representation invariant of queued blocks (part of I_c): an in_blk's next/left describe the unread tail of its
   chunk; a work_blk owns its encoder (before transmission) and its output buffer (after) */
#define IBLK_OK(b) ((b)->left <= (b)->size && (b)->next == (const unsigned char *)(b)->buffer + ((b)->size - (b)->left))
static struct in_blk *fresh_iblk(void)
{
  struct in_blk *b = malloc(sizeof *b); size_t n, l;
  __CPROVER_assume(b != 0 && n >= 1 && n <= ((size_t)1 << 30) && l >= 1 && l <= n);
  b->buffer = malloc(n); __CPROVER_assume(b->buffer != 0);
  b->size = n; b->left = l; b->next = (const unsigned char *)b->buffer + (n - l);
  return b;
}
static struct work_blk *fresh_wblk(void)
{
  struct work_blk *b = malloc(sizeof *b); __CPROVER_assume(b != 0);
  b->enc = malloc(64); b->buffer = malloc(8); __CPROVER_assume(b->enc != 0 && b->buffer != 0);
  return b;
}

static void env_runs(void)
{
  /* every other thread may run arbitrarily long: all protected state changes, only I_c is known */
  unsigned a, b, c, d, e, f, g, h, i; bool t, z; struct position o; uint32_t cc; int s;
  coll_q.size = a; trans_q.size = b; reord_q.size = c; work_units = d; out_slots = e;
  g_oth_units = f; g_oth_slots = g; g_oth_inputs = h; g_in_sink = i; eof = z; collect_token = t; order = o; combined_crc = cc;
  __CPROVER_assume(s == 0 || s == 1); g_oth_seq = s;
  { int u; unfinished_work = u ? fresh_wblk() : 0; }
  __CPROVER_assume(f <= num_worker && g <= total_out_slots && h <= total_in_slots && i <= total_out_slots);
  if (coll_q.size > 0 && coll_q.size <= CAP_COLL) coll_q.root[0] = fresh_iblk();
  if (trans_q.size > 0 && trans_q.size <= CAP_TRANS) trans_q.root[0] = fresh_wblk();
  if (reord_q.size > 0 && reord_q.size <= CAP_REORD) reord_q.root[0] = fresh_wblk();
  __CPROVER_assume(I_C);
}

/* ---- SPEC: resources held by the running task at its k-th sched_unlock() */
static void spec_at_unlock(void)
{
  switch (g_task) {
  case T_COLLECT:      /* #1 after taking an input block and a work unit; #2 after giving the input block back to coll_q */
    if (g_unlocks == 1) { g_my_units = 1; g_my_inputs = 1; }
    else { g_my_units = 1; g_my_inputs = 0; }
    break;
  case T_COLLECT_SEQ:  /* #1: the sequential collector owns its work unit (fresh or the unfinished block) and maybe an input block;
                          later unlocks: input block given back / collection finished */
    g_my_units = 1;
    if (g_unlocks == 1) { g_my_seq = 1; g_my_inputs = g_seq_has_input; }
    else if (collect_token) { g_my_seq = 0; g_my_inputs = 0; }
    else { g_my_seq = 1; g_my_inputs = 0; }
    break;
  case T_TRANSMIT:     /* holds the dequeued block's work unit and the reserved output slot */
    g_my_units = 1; g_my_slots = 1; break;
  case T_INPUT: case T_WRITTEN: case T_REORDER:
    g_my_units = 0; g_my_slots = 0; g_my_inputs = 0; break;
  }
}


void sched_lock(void)
{
  __CPROVER_assert(!g_held, "sched_lock: not already inside the monitor");
  g_locks++;
  env_runs();
  g_held = 1;
}
void sched_unlock(void)
{
  __CPROVER_assert(g_held, "sched_unlock: inside the monitor");
  g_unlocks++;
  spec_at_unlock();
  __CPROVER_assert(I_C, "monitor invariant I_c holds when the task leaves the monitor");
  g_held = 0;
}

/* ---- heap primitives: contracts proved in process.heap_* ; queue capacity is checked here */
static unsigned *qsize_of(void *root) { return root == (void *)coll_q.root ? &coll_q.size : root == (void *)trans_q.root ? &trans_q.size : &reord_q.size; }
void up_heap(void *vroot, unsigned size)
{
  void **root = vroot;
  __CPROVER_assert(g_held, "queues are modified only inside the monitor");
  __CPROVER_assert(vroot == (void *)coll_q.root || vroot == (void *)trans_q.root || vroot == (void *)reord_q.root, "known queue");
  unsigned cap = vroot == (void *)coll_q.root ? CAP_COLL : vroot == (void *)trans_q.root ? CAP_TRANS : CAP_REORD;
  __CPROVER_assert(size < cap, "enqueue: queue holds fewer items than its fixed capacity");
  __CPROVER_assert(root[size] != 0, "enqueue: element is a block");
  if (vroot == (void *)coll_q.root) g_enq_coll = root[size]; else if (vroot == (void *)trans_q.root) g_enq_trans = root[size]; else g_enq_reord = root[size];
  /* sift-up: the new head is either the old head or the new element (contract of up_heap) */
  if (size > 0) { int sw; if (sw) { void *t = root[0]; root[0] = root[size]; root[size] = t; } }
}
void down_heap(void *vroot, unsigned size)
{
  void **root = vroot;
  __CPROVER_assert(g_held, "queues are modified only inside the monitor");
  __CPROVER_assert(size != (unsigned)-1, "dequeue: queue was not empty");
  void *head = root[0];
  if (size > 0) root[0] = (vroot == (void *)coll_q.root) ? (void *)fresh_iblk() : (void *)fresh_wblk();   /* some other element becomes the head */
  root[size] = head;                                    /* contract: the old head is handed out at root[size] */
}

/* ---- codec and I/O callees (ASSUMED contracts; their own behaviour is C01/C02/C04) */
void *xmalloc(size_t n) { void *p = malloc(n); __CPROVER_assume(p != 0); return p; }
size_t encoder_alloc_size(unsigned long mbs) { return 64; }
void encoder_init(struct encoder_state *e, unsigned long mbs, unsigned cf) { g_enc_mbs = mbs; g_enc_cf = cf; }
int collect(struct encoder_state *e, const uint8_t *buf, size_t *sz)
{
  __CPROVER_assert(!g_held, "collect() runs outside the monitor");
  size_t c; __CPROVER_assume(c <= *sz);
  g_collect_calls++; g_collect_buf = buf; g_collect_avail = *sz; g_collect_consumed = c;
  *sz -= c;
  int full; g_collect_full = (full != 0);
  if (*sz > 0) g_collect_full = 1;            /* collect() stops early only when the block is full */
  return g_collect_full;
}
size_t encode(struct encoder_state *e, uint32_t *crc) { __CPROVER_assert(!g_held, "encode() runs outside the monitor"); g_encode_calls++; uint32_t c; *crc = c; size_t n; __CPROVER_assume(n >= 1 && n < 2000000); return n; }
void *transmit(struct encoder_state *e, void *buf) { __CPROVER_assert(!g_held, "transmit() runs outside the monitor"); g_transmit_calls++; return buf; }
void source_release_buffer(void *b) { __CPROVER_assert(!g_held, "source_release_buffer() outside the scheduler monitor (lock order)"); __CPROVER_assert(g_my_inputs >= 1, "only a held input block is released"); g_my_inputs--; g_released_input++; }
void sink_write_buffer(void *b, size_t size, size_t weight)
{ g_sink_calls++; g_sink_buf = b; g_sink_size = size; g_sink_weight = weight; g_in_sink++; }
uint8_t g_xw[16]; size_t g_xw_len; int g_xw_calls;
void xwrite(const void *b, size_t n) { g_xw_calls++; g_xw_len = n; for (size_t i = 0; i < n && i < 16; i++) g_xw[i] = ((const uint8_t *)b)[i]; }

/* ---- common set-up: an arbitrary scheduler state satisfying I_c, entered with the monitor held */
static void setup3(int task, unsigned mu, unsigned ms, unsigned mi)
{
  unsigned nw, ti, to;
  __CPROVER_assume(nw >= 1 && nw <= 1000000); num_worker = nw;
  total_in_slots = 2u * nw; total_out_slots = 2u * nw + 2u;          /* set_memory_constraints(), proved in process.work */
  { unsigned l; __CPROVER_assume(l >= 1 && l <= 9); bs100k = l; }
  { bool u; ultra = u; }
  coll_q.root = malloc((size_t)CAP_COLL * sizeof(*coll_q.root));
  trans_q.root = malloc((size_t)CAP_TRANS * sizeof(*trans_q.root));
  reord_q.root = malloc((size_t)CAP_REORD * sizeof(*reord_q.root));
  __CPROVER_assume(coll_q.root && trans_q.root && reord_q.root);
  g_task = task; g_my_units = mu; g_my_slots = ms; g_my_inputs = mi; g_my_seq = 0; g_unlocks = g_locks = 0;
  env_runs();
  g_held = 1;
}
static void setup(int task) { setup3(task, 0, 0, 0); }

static void at_exit(const char *dummy)
{
  /* task exit: back in the worker loop, monitor held, nothing held privately */
  g_my_units = 0; g_my_slots = 0; g_my_inputs = 0; g_my_seq = 0;
}
#define EXIT_CHECKS() do { \
    V_ASSERT(g_held, "task returns inside the monitor (lock balance)"); \
    at_exit(0); \
    V_ASSERT(I_C, "monitor invariant I_c holds at task exit with nothing held privately (every unit/slot taken was returned or handed to a queue)"); \
  } while (0)
#define POS_EQ(a, b) ((a).major == (b).major && (a).minor == (b).minor)

/* O11.1 / O3.4: do_collect */
void h_do_collect(void)
{
  setup(T_COLLECT);
  V_ASSUME(can_collect());
  struct in_blk *ib = peek(coll_q);
  struct in_blk old = *ib;
  V_ASSUME(old.left > 0 && old.pos.major < (1ull << 62) && old.pos.minor < (1ull << 62));
  do_collect();
  EXIT_CHECKS();
  struct work_blk *wb = g_enq_trans;
  V_ASSERT(g_collect_calls == 1 && g_collect_buf == old.next && g_collect_avail == old.left, "do_collect: collects from the unread remainder of the chunk");
  V_ASSERT(g_enc_mbs == bs100k * 100000u, "do_collect: fresh encoder with capacity level*100000");
  V_ASSERT(wb != 0 && POS_EQ(wb->pos, old.pos) && wb->weight == g_collect_consumed, "do_collect: the work block carries the position of the input it was cut from");
  size_t left = old.left - g_collect_consumed;
  if (left > 0) {
    V_ASSERT(wb->next.major == old.pos.major && wb->next.minor == old.pos.minor + 1, "do_collect: chunk not exhausted -> next position is (major, minor+1)");
    V_ASSERT(g_enq_coll == ib && ib->pos.major == old.pos.major && ib->pos.minor == old.pos.minor + 1 && ib->next == old.next + g_collect_consumed && ib->left == left,
             "do_collect: the remainder is re-queued at (major, minor+1), advanced by exactly the consumed bytes");
    V_ASSERT(g_released_input == 0 && IBLK_OK(ib), "do_collect: unfinished chunk is not released and still describes its unread tail");
    V_CANARY("do_collect splits a chunk");
  } else {
    V_ASSERT(wb->next.major == old.pos.major + 1 && wb->next.minor == 0, "do_collect: chunk exhausted -> next position is (major+1, 0)");
    V_ASSERT(g_released_input == 1, "do_collect: exhausted chunk is released exactly once");
    V_CANARY("do_collect finishes a chunk");
  }
  V_ASSERT(g_encode_calls == 1, "do_collect: block encoded once");
}

/* O11.1 / O3.4: do_collect_seq (--sequential) */
void h_do_collect_seq(void)
{
  setup(T_COLLECT_SEQ);
  V_ASSUME(can_collect_seq());
  g_seq_has_input = !empty(coll_q);
  struct in_blk *ib = g_seq_has_input ? peek(coll_q) : 0;
  struct in_blk old; if (ib) { old = *ib; V_ASSUME(old.left > 0 && old.pos.major < (1ull << 62) && old.pos.minor < (1ull << 62)); }
  struct work_blk *uw = unfinished_work;
  struct work_blk oldw; if (uw) { oldw = *uw; V_ASSUME(oldw.weight < (1ull << 40)); }
  /* ASSUMED lemma (sequential mode): the head of coll_q is the position that follows the unfinished block --
     the single reader enqueues chunks in id order and the single collector consumes them in order */
  V_ASSUME(uw == 0 || ib == 0 || POS_EQ(uw->next, ib->pos));
  do_collect_seq();
  EXIT_CHECKS();
  if (ib) {
    V_ASSERT(g_collect_calls == 1 && g_collect_buf == old.next && g_collect_avail == old.left, "do_collect_seq: collects from the unread remainder of the chunk");
  } else V_ASSERT(g_collect_calls == 0 && uw != 0, "do_collect_seq: without input only an unfinished block at end of input is flushed");
  struct work_blk *wb = g_encode_calls ? (struct work_blk *)g_enq_trans : unfinished_work;   /* where the block went */
  if (!uw && ib) V_ASSERT(g_enc_mbs == bs100k * 100000u && POS_EQ(wb->pos, old.pos), "do_collect_seq: a fresh block starts at the position of its first input");
  if (uw) V_ASSERT(wb == uw && POS_EQ(wb->pos, oldw.pos), "do_collect_seq: the unfinished block is continued (same encoder, same position)");
  if (ib) {
    size_t left = old.left - g_collect_consumed;
    if (left > 0) {
      V_ASSERT(wb->next.major == old.pos.major && wb->next.minor == old.pos.minor + 1, "do_collect_seq: chunk not exhausted -> next is (major, minor+1)");
      V_ASSERT(g_enq_coll == ib && ib->pos.minor == old.pos.minor + 1 && ib->next == old.next + g_collect_consumed && ib->left == left, "do_collect_seq: remainder re-queued at (major, minor+1)");
    } else {
      V_ASSERT(wb->next.major == old.pos.major + 1 && wb->next.minor == 0 && g_released_input == 1, "do_collect_seq: chunk exhausted -> next is (major+1, 0), chunk released");
    }
    V_ASSERT(wb->weight == (uw ? oldw.weight : 0) + g_collect_consumed, "do_collect_seq: weight accumulates consumed bytes");
  }
  int done = ib ? g_collect_full : 1;
  if (!done) { V_ASSERT(unfinished_work == wb && g_encode_calls == 0, "do_collect_seq: block not full -> kept as the unfinished block, not encoded"); V_CANARY("seq keeps unfinished"); }
  else { V_ASSERT(g_encode_calls == 1 && g_enq_trans == wb, "do_collect_seq: full block (or end of input) -> encoded and queued for transmission"); V_CANARY("seq completes a block"); }
}

/* O11.1: do_transmit */
void h_do_transmit(void)
{
  setup(T_TRANSMIT);
  V_ASSUME(can_transmit());
  struct work_blk *wb = peek(trans_q);
  V_ASSUME(wb->size < 2000000);
  do_transmit();
  EXIT_CHECKS();
  V_ASSERT(g_transmit_calls == 1 && g_enq_reord == wb, "do_transmit: the dequeued block is transmitted and queued for reordering");
  V_CANARY("do_transmit");
}

/* O3.5 / O11.3 / O2.3: do_reorder */
void h_do_reorder(void)
{
  setup(T_REORDER);
  V_ASSUME(can_reorder());
  struct work_blk old = *peek(reord_q);
  struct position ord0 = order; uint32_t cc0 = combined_crc;
  unsigned slots0 = out_slots, rq0 = reord_q.size, sink0 = g_in_sink;
  do_reorder();
  EXIT_CHECKS();
  V_ASSERT(POS_EQ(old.pos, ord0), "do_reorder: the block handed to the writer is the one whose position equals the expected order");
  V_ASSERT(g_sink_calls == 1 && g_sink_buf == old.buffer && g_sink_size == old.size && g_sink_weight == old.weight, "do_reorder: exactly that block's buffer is handed to the writer, whole");
  V_ASSERT(POS_EQ(order, old.next), "do_reorder: the expected order advances to the block's chained next position");
  V_ASSERT(combined_crc == (((cc0 << 1) | (cc0 >> 31)) ^ ~old.crc), "do_reorder: combined CRC = rotl1(previous) xor stored block CRC (the complement of encode()'s value)");
  V_CANARY("do_reorder");
}

/* O3.3: on_input_avail (reader thread) */
void h_on_input_avail(void)
{
  setup3(T_INPUT, 0, 0, 1);             /* the reader holds the input slot it took before read() (process.source_thread) */
  g_held = 0;
  uintmax_t id0 = next_id; V_ASSUME(id0 < (1ull << 62));
  char *buf = malloc(8); size_t sz; V_ASSUME(buf && sz >= 1);
  on_input_avail(buf, sz);
  V_ASSERT(!g_held, "on_input_avail: returns outside the monitor");
  at_exit(0);
  struct in_blk *ib = g_enq_coll;
  V_ASSERT(ib != 0 && ib->pos.major == id0 && ib->pos.minor == 0 && next_id == id0 + 1, "on_input_avail: chunk n gets position (n, 0), ids strictly increasing");
  V_ASSERT(ib->buffer == buf && ib->size == sz && ib->next == (const unsigned char *)buf && ib->left == sz, "on_input_avail: the whole chunk is queued");
  V_CANARY("on_input_avail");
}

/* on_write_complete (writer thread) */
void h_on_write_complete(void)
{
  setup3(T_WRITTEN, 0, 1, 0);           /* the writer holds the slot of the buffer it has just written */
  g_held = 0;
  void *buf = malloc(8); V_ASSUME(buf);
  on_write_complete(buf);
  V_ASSERT(!g_held, "on_write_complete: returns outside the monitor");
  V_CANARY("on_write_complete");
}

/* O2.1 / O2.2: stream header and trailer */
void h_write_header(void)
{
  unsigned l; V_ASSUME(l >= 1 && l <= 9); bs100k = l;
  write_header();
  V_ASSERT(g_xw_calls == 1 && g_xw_len == 4 && g_xw[0] == 0x42 && g_xw[1] == 0x5A && g_xw[2] == 0x68 && g_xw[3] == 0x30 + l, "stream header is 'B' 'Z' 'h' and the level digit");
  V_CANARY("write_header");
}
void h_write_trailer(void)
{
  uint32_t c; combined_crc = c;
  g_single = 1;                          /* uninit() runs after every other thread of the run was joined */
  write_trailer();
  V_ASSERT(g_xw_calls == 1 && g_xw_len == 10 && g_xw[0] == 0x17 && g_xw[1] == 0x72 && g_xw[2] == 0x45 && g_xw[3] == 0x38 && g_xw[4] == 0x50 && g_xw[5] == 0x90, "stream trailer magic 17 72 45 38 50 90");
  V_ASSERT((((uint32_t)g_xw[6] << 24) | ((uint32_t)g_xw[7] << 16) | ((uint32_t)g_xw[8] << 8) | g_xw[9]) == c, "stream trailer carries the combined CRC big-endian");
  V_CANARY("write_trailer");
}

/* O18.1 / O11: init() gives the canonical start state whatever the previous run left behind */
void h_init(void)
{
  unsigned nw; V_ASSUME(nw >= 1 && nw <= 100000); num_worker = nw;
  g_single = 1;                          /* init() runs in primary_thread() before any other thread of the run exists (process.primary_prologue) */
  total_in_slots = 2u * nw; total_out_slots = 2u * nw + 2u;
  in_slots = total_in_slots; out_slots = total_out_slots; work_units = num_worker;    /* primary_thread() prologue, proved in process.primary */
  { unsigned l; V_ASSUME(l >= 1 && l <= 9); bs100k = l; }
  { uintmax_t n; next_id = n; struct position o; order = o; uint32_t c; combined_crc = c; }   /* leftovers of a previous operand */
  collect_token = true; unfinished_work = 0;                                              /* terminal predicate T_c (O18.2) */
  init();
  V_ASSERT(next_id == 0 && order.major == 0 && order.minor == 0 && combined_crc == 0, "init(): ids, expected order and combined CRC start from zero for every operand");
  V_ASSERT(coll_q.size == 0 && trans_q.size == 0 && reord_q.size == 0, "init(): queues empty");
  V_ASSERT(__CPROVER_OBJECT_SIZE(coll_q.root) == (size_t)total_in_slots * sizeof(void *) && __CPROVER_OBJECT_SIZE(trans_q.root) == (size_t)num_worker * sizeof(void *) &&
           __CPROVER_OBJECT_SIZE(reord_q.root) == (size_t)total_out_slots * sizeof(void *), "init(): queue capacities are the slot / unit totals the invariant relies on");
  V_ASSERT(g_xw_calls == 1 && g_xw[3] == 0x30 + bs100k, "init(): writes the stream header");
  V_CANARY("init");
}

/* O18.2: the terminal predicate follows from I_c and can_terminate() */
void h_terminal(void)
{
  setup(0);
  V_ASSUME(g_oth_units == 0 && g_oth_slots == 0 && g_oth_inputs == 0 && g_oth_seq == 0);   /* all other threads idle */
  if (can_terminate()) {
    V_ASSERT(unfinished_work == 0 && collect_token && empty(trans_q) && empty(reord_q) && empty(coll_q) && g_in_sink == 0, "I_c and can_terminate(): nothing is pending anywhere (terminal state T_c)");
    V_CANARY("terminal");
  }
}

/* O11.2: guards (safety direction and the documented reservation rule) */
void h_guards(void)
{
  setup(0);
  if (can_transmit()) V_ASSERT(!empty(trans_q) && out_slots > 0, "can_transmit only with a queued block and a free output slot");
  if (!empty(trans_q) && out_slots > 0 && POS_EQ(peek(trans_q)->pos, order)) V_ASSERT(can_transmit(), "reservation rule: the block that is next in order can transmit whenever any output slot is free");
  if (!empty(trans_q) && out_slots > TRANSM_THRESH) V_ASSERT(can_transmit(), "any block can transmit while more than the reserved slots are free");
  if (can_collect()) V_ASSERT(!ultra && !empty(coll_q) && work_units > 0, "can_collect only with input and a free work unit");
  if (can_collect_seq()) V_ASSERT(ultra && collect_token && (work_units > 0 || unfinished_work != 0), "can_collect_seq only with the collect token and a unit (or the unfinished block)");
  if (can_reorder()) V_ASSERT(!empty(reord_q) && POS_EQ(peek(reord_q)->pos, order), "can_reorder only for the block whose position equals the expected order");
  if (!empty(reord_q) && POS_EQ(peek(reord_q)->pos, order)) V_ASSERT(can_reorder(), "the block in order is always ready to be written");
  V_CANARY("guards");
}
