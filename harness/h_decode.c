/* Harnesses over src/decode.c (woven: contracts/decode.c.spec). */
#include "verif.h"
#include "src/decode.c"

int g_delta_len0, g_delta_stop, g_delta_seen;
unsigned g_delta_win;

void *xmalloc(size_t n) { return malloc(n); }

static struct retriever_internal_state RS;
static uint32_t TT[MAX_BLOCK_SIZE];

/* O5.4  One delta window of the real retrieve() from an arbitrary table-reading state,
   entered through the coroutine resume point S_DELTA_TAG.  len0 ranges over every
   value the code can hold there: the raw 5-bit start value 0..31 or a validated
   length; win over all 64 windows (buffered bits fully symbolic). */
void h_delta_step(void)
{
  struct decoder_state ds;
  struct bitstream bs;
  uint32_t mem[1];
  V_IN(unsigned, len0);
  V_IN(unsigned, live);
  V_IN(uint64_t, buff);
  V_IN(uint32_t, word);
  /* position in the table section: concrete per instance (symbolic indices into the 60 KB
     retriever state make the SAT encoding explode; the window logic does not depend on them) */
  unsigned j = DELTA_J, as = DELTA_AS, t = DELTA_T;
  V_ASSUME(len0 <= 31 && live < 32 && (buff << live) == 0 && (live != 0 || buff == 0));
  V_ASSUME(as >= MIN_ALPHA_SIZE && as <= MAX_ALPHA_SIZE && j < as && t < MAX_TREES);
  mem[0] = word;
  ds.internal_state = &RS; ds.tt = TT; ds.block_size = 0;
  RS.state = S_DELTA_TAG; RS.j = j; RS.alpha_size = as; RS.t = t; RS.num_trees = MAX_TREES;
  RS.code_len[j] = len0;
  bs.live = live; bs.buff = buff; bs.data = mem; bs.limit = mem + 1; bs.eof = 0; bs.block = 0;
  g_delta_stop = 1; g_delta_seen = 0;
  int rv = retrieve(&ds, &bs);
  /* only the reject path returns here (the accept path is cut after its assertions) */
  V_ASSERT(rv == ERR_DELTA && g_delta_seen == 1, "delta step: harness reaches exactly one window");
  V_CANARY("delta reject path reached");
}

#ifdef VERIF_REPLAY
int main(void) { HARNESS(); puts("REPLAY-PASS"); return 0; }
#endif
