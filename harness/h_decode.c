/* Harnesses over src/decode.c (woven: contracts/decode.c.spec). */
#include "verif.h"
#include "src/decode.c"

int g_delta_len0, g_delta_stop, g_delta_seen;
unsigned g_delta_win;
void free(void *p) { }      /* the retriever state is a static harness object here; retrieve()'s free() of it is a no-op */

void *xmalloc(size_t n) { return malloc(n); }

#ifndef DELTA_J
#define DELTA_J 0
#define DELTA_AS 3
#define DELTA_T 0
#endif
static struct retriever_internal_state RS;
static uint32_t TT[MAX_BLOCK_SIZE];

/* O5.4  One delta window of the real retrieve() from an arbitrary table-reading state,
   entered through the coroutine resume point S_DELTA_TAG.  len0 ranges over every
   value the code can hold there: the raw 5-bit start value 0..31 or a validated
   length; win over all 64 windows (buffered bits fully symbolic). */
void h_delta_step(void)
{
  struct decoder_state ds;
  struct bitstream bs;
  uint32_t mem[1];
  V_IN(unsigned, len0);
  V_IN(unsigned, live);
  V_IN(uint64_t, buff);
  V_IN(uint32_t, word);
  /* position in the table section: concrete per instance (symbolic indices into the 60 KB
     retriever state make the SAT encoding explode; the window logic does not depend on them) */
  unsigned j = DELTA_J, as = DELTA_AS, t = DELTA_T;
  V_ASSUME(len0 <= 31 && live < 32 && (buff << live) == 0 && (live != 0 || buff == 0));
  V_ASSUME(as >= MIN_ALPHA_SIZE && as <= MAX_ALPHA_SIZE && j < as && t < MAX_TREES);
  mem[0] = word;
  ds.internal_state = &RS; ds.tt = TT; ds.block_size = 0;
  RS.state = S_DELTA_TAG; RS.j = j; RS.alpha_size = as; RS.t = t; RS.num_trees = MAX_TREES;
  RS.code_len[j] = len0;
  bs.live = live; bs.buff = buff; bs.data = mem; bs.limit = mem + 1; bs.eof = 0; bs.block = 0;
  g_delta_stop = 1; g_delta_seen = 0;
  int rv = retrieve(&ds, &bs);
  /* only the reject path returns here (the accept path is cut after its assertions) */
  V_ASSERT(rv == ERR_DELTA && g_delta_seen == 1, "delta step: harness reaches exactly one window");
  V_CANARY("delta reject path reached");
}


int g_mt_stop, g_mt_verdict;
unsigned g_sel_win; int g_sel_seen, g_sel_stop, g_group_stop, g_eob_ok;
unsigned g_nsel_read;
int g_no_mtfv;

/* O5.5 / O6.2  make_tree(): the completeness decision for EVERY length vector (alphabet size and all 258 lengths symbolic).
   Reference: Kraft sum over the used symbols, computed directly from the definition (sum of 2^(20-len)). */
void h_make_tree_kraft(void)
{
#ifndef KRAFT_T
#define KRAFT_T 0
#endif
  V_IN(unsigned, as);
  unsigned t = KRAFT_T;        /* concrete table slot per instance (a symbolic slot is a symbolic offset into the 60 KB state) */
  V_IN_ARR(uint8_t, len, MAX_ALPHA_SIZE);
  unsigned s; uint64_t kraft = 0;
#ifndef KRAFT_MAX_AS
#define KRAFT_MAX_AS MAX_ALPHA_SIZE
#endif
  V_ASSUME(as >= MIN_ALPHA_SIZE && as <= KRAFT_MAX_AS && t < MAX_TREES);
  for (s = 0; s < KRAFT_MAX_AS; s++) {
    if (s < as) { V_ASSUME(len[s] >= MIN_CODE_LENGTH && len[s] <= MAX_CODE_LENGTH); kraft += (uint64_t)1 << (MAX_CODE_LENGTH - len[s]); }   /* retrieve() only stores lengths 1..20 (delta lemma) */
    RS.code_len[s] = len[s];
  }
  RS.alpha_size = as; RS.t = t; RS.mtf[t] = 99;
  g_mt_stop = 1; g_mt_verdict = -1;
  make_tree(&RS);
  if (kraft == ((uint64_t)1 << MAX_CODE_LENGTH)) {
    V_ASSERT(g_mt_verdict == 0 && RS.mtf[t] == 99, "a complete prefix code (Kraft sum exactly 1) is accepted: tables are built");
    V_CANARY("complete table");
  } else if (kraft < ((uint64_t)1 << MAX_CODE_LENGTH)) {
    V_ASSERT(g_mt_verdict == -1 && RS.mtf[t] == ERR_INCOMPLT, "an incomplete code (Kraft sum below 1) is marked ERR_INCOMPLT");
    V_CANARY("incomplete table");
  } else {
    V_ASSERT(g_mt_verdict == -1 && RS.mtf[t] == ERR_PREFIX, "an oversubscribed code (Kraft sum above 1) is marked ERR_PREFIX");
    V_CANARY("oversubscribed table");
  }
}

/* O5.6  One selector code of the real retrieve(), entered through the resume point S_SELECTOR_MTF. */
#ifndef SEL_J
#define SEL_J 0
#endif
void h_selector_step(void)
{
  struct decoder_state ds; struct bitstream bs; uint32_t mem[1];
  V_IN(unsigned, nt);
  V_IN(unsigned, live);
  V_IN(uint64_t, buff);
  V_IN(uint32_t, word);
  V_ASSUME(nt >= MIN_TREES && nt <= MAX_TREES && live < 32 && (buff << live) == 0 && (live != 0 || buff == 0));
  mem[0] = word;
  ds.internal_state = &RS; ds.tt = TT; ds.block_size = 0;
  RS.state = S_SELECTOR_MTF; RS.j = SEL_J; RS.num_selectors = SEL_J + 2; RS.num_trees = nt; RS.alpha_size = 3;
  bs.live = live; bs.buff = buff; bs.data = mem; bs.limit = mem + 1; bs.eof = 0; bs.block = 0;
  g_sel_stop = 1; g_sel_seen = 0;
  /* the resume point re-enters the loop at its end (j++), so the code examined is selector SEL_J+1 */
  int rv = retrieve(&ds, &bs);
  V_ASSERT(rv == ERR_SELECTOR && g_sel_seen == 1, "selector step: the harness reaches exactly one selector code");
  V_CANARY("selector reject path reached");
}

/* O6.6  After the tables: only the first 18001 selectors are used.  Entered at the last delta code of the last table
   (resume point S_DELTA_TAG) with a concrete complete 3-symbol table and a symbolic selector count. */
void h_selector_cap(void)
{
  struct decoder_state ds; struct bitstream bs; uint32_t mem[2];
  V_IN(unsigned, nsel);
  V_ASSUME(nsel >= 1 && nsel <= MAX_SELECTORS);
  mem[0] = 0; mem[1] = 0;
  ds.internal_state = &RS; ds.tt = TT; ds.block_size = 0;
  RS.state = S_DELTA_TAG; RS.num_trees = 2; RS.t = 1; RS.alpha_size = 3; RS.j = 2; RS.num_selectors = nsel;
  RS.code_len[0] = 1; RS.code_len[1] = 2; RS.code_len[2] = 2;
  bs.live = 0; bs.buff = 0; bs.data = mem; bs.limit = mem + 2; bs.eof = 0; bs.block = 0;   /* next bit 0: the last length is final */
  g_delta_stop = 0; g_mt_stop = 1; g_group_stop = 1;
  int rv = retrieve(&ds, &bs);
  V_ASSERT(0, "selector cap: the run is cut at the group loop");
}

/* O5.6 / C08  End of block: ERR_EMPTY / ERR_BWTIDX.  Entered at S_PREFIX with a real 3-symbol table (RUNA=0, RUNB=10, EOB=11)
   built by the real make_tree(); <= 8 symbolic input bits, symbolic primary index and symbolic block fill. */
#ifndef EOB_FILL
#define EOB_FILL 0
#endif
void h_end_of_block(void)
{
  struct decoder_state ds; struct bitstream bs;
  V_IN(unsigned, idx);
  V_IN(unsigned, sym8);
  V_IN(unsigned, run0);
  V_IN(unsigned, shift0);
  uint32_t mem[1];
  V_ASSUME(idx < (1u << 24) && sym8 < 16 && run0 <= 3 && shift0 <= 1);
  { uint32_t w = (sym8 << 28) | 0x0FFFFFFFu; mem[0] = htonl(w); }      /* 4 symbolic bits, then ones: the block ends (EOB = 11) within 6 bits */
  static uint32_t tt_small[64];           /* at most 3 + 15 + EOB_FILL symbols are produced here; tt_limit is only compared, never dereferenced */
  ds.internal_state = &RS; ds.tt = tt_small; ds.block_size = EOB_FILL; ds.bwt_idx = idx;
  RS.alpha_size = 3; RS.code_len[0] = 1; RS.code_len[1] = 2; RS.code_len[2] = 2; RS.num_trees = 2; RS.num_selectors = 1; RS.g = 0;
  g_mt_stop = 0;
  RS.t = 0; make_tree(&RS);
  RS.state = S_PREFIX; RS.j = 0; RS.t = 0; RS.run = run0; RS.shift = shift0; RS.runChar = 65;
  bs.live = 0; bs.buff = 0; bs.data = mem; bs.limit = mem + 1; bs.eof = 1; bs.block = 0;
  g_eob_ok = 0; g_no_mtfv = 1;
  int rv = retrieve(&ds, &bs);
  V_ASSERT(rv != OK || (g_eob_ok && ds.block_size > 0 && idx < ds.block_size && ds.internal_state == 0), "OK only for a non-empty block whose primary index is inside it");
  V_ASSERT(rv != ERR_EMPTY || ds.block_size == 0, "ERR_EMPTY only for an empty block");
  V_ASSERT(rv != ERR_BWTIDX || (ds.block_size > 0 && idx >= ds.block_size), "ERR_BWTIDX only for an index outside the block");
  V_ASSERT(rv == OK || rv == ERR_EMPTY || rv == ERR_BWTIDX || rv == ERR_EOF || rv == ERR_OVERFLOW, "end-of-block section returns one of its documented results");
  V_ASSERT(ds.block_size <= EOB_FILL + 3 + 15, "symbols written = pending run + the runs coded by the 4 input bits (the 64-entry stand-in array is never overrun)");
  if (rv == OK) V_CANARY("block accepted");
  if (rv == ERR_BWTIDX) V_CANARY("index rejected");
#if EOB_FILL == 0
  if (rv == ERR_EMPTY) V_CANARY("empty rejected");
#endif
}


/* O6.3  mtf_one(), fast path (index < 16): from EVERY position of the first row inside the slide and every content. */
void h_mtf_fast(void)
{
#define FAST_SLIDE 64                     /* the fast path only uses the 16 bytes of the first row: a 64-byte window stands in for the 8192-byte slide
                                            (with the real size both SAT back ends run out of memory and z3 gives no answer) */
  uint8_t slide[FAST_SLIDE];              /* arbitrary content (never written by the harness) */
  uint8_t *row[NUM_ROWS];
  V_IN(unsigned, off0);
  V_IN(unsigned, c);
  V_IN(unsigned, q);
  unsigned i; uint8_t before[ROW_WIDTH];
  V_ASSUME(off0 <= FAST_SLIDE - ROW_WIDTH && c >= 1 && c < ROW_WIDTH && q < FAST_SLIDE);      /* retrieve() passes MTF values 1..255 (0 is the end-of-block symbol) */
  for (i = 0; i < NUM_ROWS; i++) row[i] = 0;                            /* rows 1..15 are not touched by the fast path (a use would be a NULL dereference) */
  row[0] = slide + off0;
  for (i = 0; i < ROW_WIDTH; i++) before[i] = slide[off0 + i];
  uint8_t qv = slide[q];
  uint8_t r = mtf_one(row, slide, (uint8_t)c);
  V_ASSERT(r == before[c], "mtf_one (index < 16): returns the element at that position of the list");
  V_ASSERT(row[0] == slide + off0, "mtf_one (index < 16): the row does not move");
  { int ok = slide[off0] == before[c]; for (i = 1; i < ROW_WIDTH; i++) if (slide[off0 + i] != (i <= c ? before[i - 1] : before[i])) ok = 0;
    V_ASSERT(ok, "mtf_one (index < 16): the element moves to the front, the ones before it shift by one, the rest stay"); }
  V_ASSERT((q >= off0 && q < off0 + ROW_WIDTH) || slide[q] == qv, "mtf_one (index < 16): nothing outside the first row changes");
  if (c == 15) V_CANARY("last position of the row");
  if (c == 1) V_CANARY("second element");
}


/* O5.6  Block header section of the real retrieve(), from S_INIT: randomisation bit, 24-bit primary index, two-level symbol map,
   table count, selector count -- against the layout of the bzip2 format read directly from the input bits.
   Bound: the first-level map has at most HDR_GROUPS bits set (so the section fits in the 4 symbolic input words). */
#ifndef HDR_GROUPS
#define HDR_GROUPS 2
#endif
int g_hdr_stop;
static unsigned g_x_alpha, g_x_trees, g_x_sel, g_x_rand, g_x_idx; static int g_x_reached; static uint8_t g_x_map[256];
static unsigned hb_get(const uint32_t *w, unsigned pos, unsigned nbits)       /* nbits (<= 24) of the big-endian bit string starting at bit pos */
{ unsigned v = 0, k; for (k = 0; k < 24; k++) if (k < nbits) { unsigned b = pos + k; v = (v << 1) | ((w[b / 32] >> (31 - b % 32)) & 1u); } return v; }
void verif_retrieve_header_done(struct decoder_state *ds, unsigned alpha_size, unsigned num_trees, unsigned num_selectors, const unsigned char *map)
{
  unsigned k;
  __CPROVER_assert(ds->rand == (g_x_rand != 0) && ds->bwt_idx == g_x_idx, "block header: randomisation bit and 24-bit primary index are the stored fields");
  __CPROVER_assert(alpha_size == g_x_alpha && num_trees == g_x_trees && num_selectors == g_x_sel, "block header: alphabet size = used byte values + 2, table count and selector count are the stored fields");
  { int ok = 1; for (k = 0; k < 32; k++) if (k + 2 < g_x_alpha && map[k] != g_x_map[k]) ok = 0; __CPROVER_assert(ok, "block header: the symbol map lists exactly the byte values marked used, in ascending order"); }
  __CPROVER_assert(g_x_alpha > 2 && g_x_trees >= MIN_TREES && g_x_trees <= MAX_TREES && g_x_sel >= 1, "block header: accepted only with a used symbol, 2..6 tables and at least one selector");
  g_x_reached = 1;
  __CPROVER_assert(0, "CANARY header accepted");
}
void h_block_header(void)
{
  struct decoder_state ds; struct bitstream bs; uint32_t mem[4];
  V_IN_ARR(uint32_t, wd, 4);
  unsigned i, j, pos, nused = 0, big, groups = 0;
  for (i = 0; i < 4; i++) mem[i] = htonl(wd[i]);
  /* ---- the fields as the format lays them out */
  g_x_rand = hb_get(wd, 0, 1); g_x_idx = hb_get(wd, 1, 24); big = hb_get(wd, 25, 16); pos = 41;
  for (i = 0; i < 16; i++) if ((big >> (15 - i)) & 1u) groups++;
  V_ASSUME(groups <= HDR_GROUPS);
  for (i = 0; i < 16; i++) if ((big >> (15 - i)) & 1u) { unsigned small = hb_get(wd, pos, 16); pos += 16; for (j = 0; j < 16; j++) if ((small >> (15 - j)) & 1u) { if (nused < 256) g_x_map[nused] = (uint8_t)(16 * i + j); nused++; } }
  g_x_alpha = nused + 2; g_x_trees = hb_get(wd, pos, 3); g_x_sel = hb_get(wd, pos + 3, 15);
  int want = nused == 0 ? ERR_BITMAP : (g_x_trees < MIN_TREES || g_x_trees > MAX_TREES) ? ERR_TREES : g_x_sel == 0 ? ERR_GROUPS : 999;
  ds.internal_state = &RS; ds.tt = TT; ds.block_size = 0;
  RS.state = S_INIT;
  bs.live = 0; bs.buff = 0; bs.data = mem; bs.limit = mem + 4; bs.eof = 0; bs.block = 0;
  g_hdr_stop = 1; g_x_reached = 0;
  int rv = retrieve(&ds, &bs);
  V_ASSERT(want != 999, "a well-formed block header reaches the selector section");
  V_ASSERT(rv == want, "block header: ERR_BITMAP iff no byte value is used, else ERR_TREES iff the table count is outside 2..6, else ERR_GROUPS iff there is no selector");
  if (rv == ERR_BITMAP) V_CANARY("empty map rejected");
  if (rv == ERR_TREES) V_CANARY("bad table count rejected");
  if (rv == ERR_GROUPS) V_CANARY("zero selectors rejected");
}


/* O6.2  Prefix decoding agreement: the tables built by the real make_tree() for a concrete complete length vector, used by the two
   copies of the decoding expression of retrieve() (extracted verbatim), decode EVERY 64-bit buffer content to the symbol whose
   canonical code (bzip2: codes assigned in order of length, then symbol number) is a prefix of it, consuming exactly its length. */
#ifndef PD_CASE
#define PD_CASE 0
#endif
#if PD_CASE == 0        /* 21 symbols, lengths 1..20 and 20: the two longest codes have 20 bits (canonical path beyond the 10-bit table) */
#define PD_N 21
static const uint8_t PD_LEN[PD_N] = { 1, 2, 3, 4, 5, 6, 7, 8, 9, 10, 11, 12, 13, 14, 15, 16, 17, 18, 19, 20, 20 };
#elif PD_CASE == 1      /* flat 8-symbol code */
#define PD_N 8
static const uint8_t PD_LEN[PD_N] = { 3, 3, 3, 3, 3, 3, 3, 3 };
#elif PD_CASE == 2      /* lengths not in symbol order, crossing the 10-bit look-up boundary */
#define PD_N 13
static const uint8_t PD_LEN[PD_N] = { 12, 1, 11, 2, 10, 3, 9, 4, 8, 5, 7, 6, 12 };
#else                   /* smallest alphabet */
#define PD_N 3
static const uint8_t PD_LEN[PD_N] = { 2, 1, 2 };
#endif
#ifndef PD_SLOW
#define PD_SLOW 0
#endif
void h_prefix_decode(void)
{
  V_IN(uint64_t, v0);
  unsigned i, L;
  V_ASSUME((v0 & 1) == 0);        /* the bit buffer holds at most 63 bits (NEED keeps w <= 63: all-ones is reserved for the base[] sentinel) */
  RS.alpha_size = PD_N; RS.t = 0; g_mt_stop = 0;
  for (i = 0; i < PD_N; i++) RS.code_len[i] = PD_LEN[i];
  make_tree(&RS);
  V_ASSERT(RS.mtf[0] == 0, "make_tree: a complete code is accepted and gets its table number");
  /* reference: canonical code assignment of the format */
  unsigned want_s = 999, want_k = 0; uint32_t code = 0;
  for (L = 1; L <= MAX_CODE_LENGTH; L++) {
    for (i = 0; i < PD_N; i++) if (PD_LEN[i] == L) {
      if ((v0 >> (64 - L)) == code) { want_s = (i == 0 ? RUN_A : i == 1 ? RUN_B : i == PD_N - 1 ? EOB : i - 1); want_k = L; }    /* internal symbol numbering of decode.c */
      code++;
    }
    code <<= 1;
  }
  struct tree *T = &RS.tree[0]; uint64_t v = v0; unsigned w = 63, x, k, s;
#if PD_SLOW
#include "src/extract/prefix_decode_slow.inc"
#else
#include "src/extract/prefix_decode_fast.inc"
#endif
  V_ASSERT(want_s != 999, "reference: a complete code has exactly one code word that is a prefix of any bit string");
  V_ASSERT(s == want_s && k == want_k, "prefix decoding: the symbol and length found through start[]/base[]/count[]/perm[] are those of the canonical code word that prefixes the buffer");
  V_ASSERT(v == (v0 << want_k) && w == 63 - want_k, "prefix decoding: exactly the code word's bits are consumed");
#if PD_CASE == 0
  if (want_k == 20) V_CANARY("20-bit code decoded");
#endif
  if (want_k <= 3) V_CANARY("short code decoded");
}


/* C08 / O5.6  Zero-run accumulation `run += RUN(s) << shift++` (both copies, extracted verbatim): from every state satisfying the invariant
   J(run, shift): run >= 2^shift - 1  and  shift <= 21   (initially run in {0,1}, shift = 0; the guard run <= 900000 < 2^20 then keeps
   shift <= 20 whenever the statement executes) -- the shift is defined, nothing overflows, J is preserved, and the value added is the
   RUNA/RUNB digit (1 or 2) times 2^shift as the format prescribes. */
#ifndef RA_SLOW
#define RA_SLOW 0
#endif
void h_run_accumulate(void)
{
  V_IN(unsigned, run0);
  V_IN(unsigned, shift0);
  V_IN(unsigned, s0);
  V_ASSUME(shift0 <= 21 && (uint64_t)run0 + 1 >= ((uint64_t)1 << shift0) && run0 <= 4 * MAX_BLOCK_SIZE);
  V_ASSUME(s0 <= 258 && s0 != 256);       /* symbols the tables can yield: 0 = end of block, 1..255 MTF values, 257 RUNA, 258 RUNB (make_tree perm[]) */
  unsigned s = s0, run = run0, shift = shift0; int continued = 1;
  RS.run = run0; RS.shift = shift0;
  struct retriever_internal_state *rs = &RS;
  do {
#if RA_SLOW
#include "src/extract/run_accumulate_slow.inc"
#else
#include "src/extract/run_accumulate_fast.inc"
#endif
    continued = 0;
  } while (0);
#if RA_SLOW
  run = RS.run; shift = RS.shift;
#endif
  int is_run = (s0 == RUN_A || s0 == RUN_B);
  V_ASSERT(continued == (is_run && run0 <= MAX_BLOCK_SIZE), "a run symbol extends the pending run exactly while the run has not outgrown the largest block");
  if (continued) {
    V_ASSERT(shift == shift0 + 1 && run == run0 + ((s0 == RUN_A ? 1u : 2u) << shift0), "RUNA/RUNB add 1 or 2 times 2^position (bijective base-2 numeration of the format)");
    V_ASSERT(shift <= 21 && (uint64_t)run + 1 >= ((uint64_t)1 << shift), "the invariant run >= 2^shift - 1, shift <= 21 is preserved (so the shift amount never reaches the width)");
    V_CANARY("run extended");
  } else {
    V_ASSERT(run == run0 && shift == shift0, "otherwise run and shift are untouched");
    V_CANARY("not a run symbol or run too long");
  }
}


/* C08 / O5.6  Dumping a pending run into the block (three copies in retrieve(), extracted verbatim): the run is written only if it fits
   in what is left of the block (tt_limit - tt), otherwise ERR_OVERFLOW; exactly `run` copies of the run byte are written, in place,
   and the byte's frequency count grows by the same amount.  The block is a RD_CAP-entry stand-in (tt_limit is just the context
   variable of the section). */
#ifndef RD_COPY
#define RD_COPY 0        /* 0 fast path, 1 slow path, 2 end of block */
#endif
#define RD_CAP 6
static unsigned g_rd_used, g_rd_run0, g_rd_char;
static int run_dump_section(struct decoder_state *ds, struct retriever_internal_state *rs, uint32_t **ptt, uint32_t *tt_limit, unsigned run, unsigned runChar)
{
  uint32_t *tt = *ptt;
#if RD_COPY == 0
#include "src/extract/run_dump_fast.inc"
#elif RD_COPY == 1
#include "src/extract/run_dump_slow.inc"
#else
#include "src/extract/run_dump_eob.inc"
#endif
  *ptt = tt;
  return 999;
}
void h_run_dump(void)
{
  struct decoder_state ds; static uint32_t blk[RD_CAP + 2];
  V_IN(unsigned, used);
  V_IN(unsigned, run0);
  V_IN(unsigned, ch);
  V_IN(uint32_t, f0);
  unsigned i;
  V_ASSUME(used <= RD_CAP && run0 <= RD_CAP + 3 && ch <= 255 && f0 < 1000000);
  for (i = 0; i < RD_CAP + 2; i++) blk[i] = 0xAAAA0000u + i;
  for (i = 0; i < 256; i++) ds.ftab[i] = 0;
  ds.ftab[ch] = f0;
  RS.run = run0; RS.runChar = ch;
  uint32_t *tt = blk + used;
  int rv = run_dump_section(&ds, &RS, &tt, blk + RD_CAP, run0, ch);
  if (run0 > RD_CAP - used) {
    V_ASSERT(rv == ERR_OVERFLOW, "a run that does not fit in the rest of the block is rejected with ERR_OVERFLOW before anything is written");
    { int ok = 1; for (i = 0; i < RD_CAP + 2; i++) if (blk[i] != 0xAAAA0000u + i) ok = 0; V_ASSERT(ok, "overflow: the block is untouched"); }
    V_CANARY("overflow rejected");
  } else {
    V_ASSERT(rv == 999 && tt == blk + used + run0, "a run that fits is written completely and the position advances by its length");
    { int ok = 1; for (i = 0; i < RD_CAP + 2; i++) { uint32_t want = (i >= used && i < used + run0) ? ch : 0xAAAA0000u + i; if (blk[i] != want) ok = 0; } V_ASSERT(ok, "exactly run copies of the run byte are written, in place, nothing beyond the block"); }
    V_ASSERT(ds.ftab[ch] == f0 + run0, "the frequency of the run byte grows by the run length");
    if (run0 == RD_CAP - used && run0 > 0) V_CANARY("run fills the block exactly");
  }
}


/* C08  The fast decoding path of retrieve() reads input words without an end-of-buffer test (NEED_FAST).  Its guard (extracted
   verbatim) must leave enough words for a whole group: GROUP_SIZE codes of at most MAX_CODE_LENGTH bits each, starting from any
   number of buffered bits.  The loop skeleton is abstracted to the two statements of the real loop that touch the input -- the real
   macros NEED_FAST() and DUMP(k) with 1 <= k <= MAX_CODE_LENGTH (k is a code length: decode.prefix_decode.*) -- and the input
   buffer ends exactly at `limit`, so any over-read is an out-of-bounds dereference. */
void h_fast_path_guard(void)
{
  V_IN(unsigned, avail);
  V_IN(unsigned, w0);
  V_IN(uint64_t, v0);
  unsigned j, w; uint64_t v; const uint32_t *next, *limit;
  V_ASSUME(avail <= 40 && w0 <= 63);
  uint32_t *words = malloc((size_t)(avail ? avail : 1) * sizeof(uint32_t)); V_ASSUME(words != 0);
  next = words; limit = words + avail; w = w0; v = v0;
  int fast = 0;
#include "src/extract/fast_path_guard.inc"
    fast = 1;
  }
  if (fast) {
    for (j = 0; j < GROUP_SIZE; j++) {
      unsigned k;
      NEED_FAST();
      V_ASSUME(k >= 1 && k <= MAX_CODE_LENGTH);
      DUMP(k);
    }
    V_ASSERT(next <= limit, "fast path: a whole group of 50 codes of up to 20 bits never consumes more words than the guard guarantees");
    V_CANARY("fast path taken");
  } else V_CANARY("slow path taken");
}

#ifdef VERIF_REPLAY
int main(void) { HARNESS(); puts("REPLAY-PASS"); return 0; }
#endif
