/* Sections of src/encode.c that are arithmetic tricks inside long functions.  Each section is copied VERBATIM from the current
   source on every run (contracts/encode.c.spec, weave mode 'extract' -> src/extract/<name>.inc) and executed here with a fully
   symbolic context.  What the extraction drops: the rest of the enclosing function; the context assumptions below say what the
   dropped code establishes (each is an assertion or an obvious range of that code). */
#include "verif.h"
#include "src/encode.c"

int32_t divbwt(uint8_t *T, int32_t *SA, int32_t *bucket, int32_t n) { int32_t r; return r; }
/* The sections touch only the members of encoder_state's u.s.  The stand-in below has that member with its REAL type (taken from
   struct encoder_state by __typeof__, so a change of any field type is followed) but without the union overlay with bucket[],
   which these sections never use -- CBMC encodes every access through a 270 KB union as a byte extract (measured: out of memory). */
struct es_standin { struct { __typeof__(((struct encoder_state *)0)->u.s) s; } u; };
static struct es_standin W;

/* ================= generate_prefix_code(): dummy second table of a single-table block (C02: "2-6 tables that are all complete
   with code lengths 1-20, including tables no group uses") ================= */
#ifndef DT_SLOT
#define DT_SLOT 0           /* tmap_new2old[0]: which of the six table slots the block's only real table occupies (concrete per instance) */
#endif
void h_dummy_table(void)
{
  struct es_standin *s = &W;
  V_IN(uint32_t, as0);
  V_IN(uint32_t, cost0);
  uint32_t as = as0, nt = 1, cost = cost0; unsigned t, v;
#ifndef DT_LO
#define DT_LO MIN_ALPHA_SIZE
#define DT_HI MAX_ALPHA_SIZE
#endif
  V_ASSUME(as >= MIN_ALPHA_SIZE && as <= MAX_ALPHA_SIZE && as >= DT_LO && as <= DT_HI && cost0 < (1u << 28));
  s->u.s.tmap_new2old[0] = DT_SLOT; s->u.s.tmap_old2new[DT_SLOT] = 0;
  { unsigned i; for (i = 0; i < MAX_ALPHA_SIZE; i++) s->u.s.length[DT_SLOT ^ 1][i] = 77; }      /* stale content of the unused slot */
#include "src/extract/dummy_table.inc"
  /* ---- what the format requires of the table that no group uses.  Formulated locally (ghost index q, boundary index n0) instead of as a
     258-term Kraft sum, which SAT needs 15 minutes for: if every length is lo or lo+1, non-decreasing, and the first n0 are the short ones,
     the Kraft sum is n0 / 2^lo + (as - n0) / 2^(lo+1), which is 1 exactly when as + n0 == 2^(lo+1). */
  unsigned tt = DT_SLOT ^ 1;
  V_IN(unsigned, q);
  V_IN(unsigned, n0);
  V_ASSERT(nt == 2 && t == tt && s->u.s.tmap_new2old[1] == tt && s->u.s.tmap_old2new[tt] == 1 && s->u.s.tmap_new2old[0] == DT_SLOT, "single-table block: a second table is added in a different slot, the real table keeps number 0");
  V_ASSUME(q < MAX_ALPHA_SIZE && q + 1 < as && n0 <= as);
  unsigned lo = s->u.s.length[tt][0], hi = s->u.s.length[tt][as - 1];
  V_ASSERT(lo >= 1 && hi <= 20, "dummy table: every code length is within 1..20");
  V_ASSERT(hi == lo || hi == lo + 1, "dummy table: at most two adjacent code lengths are used");
  V_ASSERT(s->u.s.length[tt][q] >= lo && s->u.s.length[tt][q + 1] <= hi && s->u.s.length[tt][q] <= s->u.s.length[tt][q + 1], "dummy table: lengths are non-decreasing (at most one step of +1, what the cost formula assumes)");
  /* n0 = number of symbols with the short length: the boundary is where the length changes (unique by monotonicity) */
  V_ASSUME((n0 == as || s->u.s.length[tt][n0] == lo + 1) && (n0 == 0 || s->u.s.length[tt][n0 - 1] == lo) && (hi == lo ? n0 == as : (n0 >= 1 && n0 < as)));
  V_ASSERT((uint64_t)as + n0 == ((uint64_t)2 << lo), "dummy table: the code is complete (Kraft sum exactly 1) for every alphabet size 3..258");
  V_ASSERT(cost == cost0 + 5 + as + 2 * (hi - lo), "dummy table: the bit cost added is its transmitted size (5-bit start value, one stop bit per symbol, 2 bits per length step)");
  if (as == DT_HI) V_CANARY("largest alphabet of the range");
  if (as == DT_LO) V_CANARY("smallest alphabet of the range");
}

/* ================= encode(): padding to a whole number of bytes (C02) ================= */
void h_padding(void)
{
  struct es_standin *s = &W;
  V_IN(uint32_t, cost0);
  V_IN(unsigned, ns0);
  uint32_t cost = cost0; uint8_t j; uint8_t buf[4] = { 9, 9, 9, 9 }; uint8_t *smp = buf;
  V_ASSUME(cost0 < (1u << 28) && ns0 >= 1 && ns0 <= 18001);
  s->u.s.num_selectors = ns0;
#include "src/extract/padding.inc"
  unsigned pad = cost - cost0;
  V_ASSERT(cost % 8 == 0 && pad <= 7, "padding: the block becomes a whole number of bytes with fewer than 8 padding bits");
  V_ASSERT(s->u.s.tree_pad <= 3 && s->u.s.num_selectors - ns0 <= 1 && pad == 2 * s->u.s.tree_pad + (s->u.s.num_selectors - ns0),
           "padding: made of 0-3 dummy delta steps (2 bits each) and at most one extra selector (1 bit)");
  V_ASSERT(s->u.s.num_selectors <= 18002, "padding: the selector count stays within the format limit of 18002");
  V_ASSERT((smp - buf) == (long)(s->u.s.num_selectors - ns0) && (smp == buf || buf[0] == 0), "padding: the extra selector is the 1-bit code (MTF value 0)");
  if (pad == 7) V_CANARY("seven padding bits");
}

/* ================= encode(): selector move-to-front on a packed list (C02, C08) ================= */
void h_selector_mtf(void)
{
  struct es_standin *s = &W;
#ifndef SMTF_C
#define SMTF_C 3
#endif
  V_IN(uint32_t, p0);
  unsigned c0 = SMTF_C;       /* the selected table: concrete per instance (it indexes the 270 KB encoder state) */
  V_IN(unsigned, ntrees);
  unsigned i, k, list[6], seen = 0;
  /* p packs the move-to-front list: nibble i = table at position i; any permutation of 0..5 */
  for (i = 0; i < 6; i++) { list[i] = (p0 >> (4 * i)) & 0xF; V_ASSUME(list[i] < 6); seen |= 1u << list[i]; }
  V_ASSUME(seen == 0x3F && (p0 >> 24) == 0 && c0 < 6 && ntrees >= 2 && ntrees <= 6 && c0 < ntrees);
  uint32_t p = p0, cost = 0; uint8_t c, j = 99; uint8_t out[2] = { 99, 99 };
  s->u.s.num_trees = ntrees; s->u.s.num_selectors = 5;
  for (i = 0; i < 6; i++) s->u.s.tmap_old2new[i] = i;
  s->u.s.selector[0] = c0; s->u.s.selector[1] = MAX_TREES;
  const uint8_t *sp = s->u.s.selector; uint8_t *smp = out;
#include "src/extract/selector_mtf.inc"
  unsigned pos = 9; for (i = 0; i < 6; i++) if (list[i] == c0) pos = i;
  V_ASSERT(out[0] == pos && cost == pos + 1, "selector MTF: the value sent is the position of the table in the list (costing position+1 bits)");
  { int ok = ((p & 0xF) == c0) && (p >> 24) == 0; for (k = 1; k < 6; k++) { unsigned want = k <= pos ? list[k - 1] : list[k]; if (((p >> (4 * k)) & 0xF) != want) ok = 0; }
    V_ASSERT(ok, "selector MTF: the table moves to the front, the ones before it shift by one, the rest stay"); }
  V_ASSERT(sp == s->u.s.selector + 1 && smp == out + 1, "selector MTF: one selector consumed, one value produced");
  if (pos == 5) V_CANARY("last position");
}

/* ================= transmit(): start value of the first table (padding by dummy delta steps) (C02) ================= */
void h_first_length(void)
{
  struct es_standin *s = &W;
  V_IN(int32_t, a0);
  V_IN(unsigned, pad);
  unsigned t = 0; int32_t a = a0;
  V_ASSUME(a0 >= 1 && a0 <= 20 && pad <= 3);       /* first length of a table (assign_codes range) and encode()'s tree_pad (h_padding) */
  s->u.s.tree_pad = pad;
#include "src/extract/first_length.inc"
  V_ASSERT(a >= 1 && a <= 20, "first table: the 5-bit start value stays within 1..20 after padding");
  V_ASSERT((a > a0 ? a - a0 : a0 - a) == (int32_t)pad, "first table: the start value is exactly tree_pad steps away from the real first length (2 padding bits per step)");
  if (pad == 3 && a0 == 20) V_CANARY("longest first length with full padding");
}


/* ================= encode(): final flush of a pending run (C04: "four copies plus a count byte"; C02: block capacity) ================= */
#ifndef FF_CAP
#define FF_CAP 6
#endif
static struct { struct encoder_state e; int32_t tail[FF_CAP + GROUP_SIZE + (FF_CAP + 8) / 4 + 2]; } W2;
void h_final_flush(void)
{
  struct encoder_state *s = &W2.e;
#ifndef FF_NB
#define FF_NB 5
#define FF_ST 258
#endif
  unsigned nb = FF_NB; int st = FF_ST;          /* concrete per instance: both index the 270 KB encoder object */
  unsigned i;
  uint8_t *block = (void *)(s->SA + FF_CAP + GROUP_SIZE);
  /* what collect() leaves behind (encode.collect.*): 0 <= state < 259; a pending run of >= 4 has its count byte reserved (nblock < capacity) */
  V_ASSUME(st >= 0 && st < MAX_RUN_LENGTH && nb >= 1 && nb <= FF_CAP && (st < 4 || (nb >= 4 && nb < FF_CAP)));
  s->max_block_size = FF_CAP; s->nblock = nb; s->rle_state = st;
  bool was[256]; for (i = 0; i < 256; i++) { bool b; s->cmap[i] = b; was[i] = b; }
  uint8_t before[FF_CAP]; for (i = 0; i < FF_CAP; i++) { uint8_t x; block[i] = x; before[i] = x; }
#include "src/extract/final_flush.inc"
  if (st >= 4) {
    V_ASSERT(s->nblock == nb + 1 && block[nb] == (uint8_t)(st - 4), "final flush: a pending run of four or more gets its count byte (run length - 4) appended");
    V_ASSERT(s->cmap[st - 4], "final flush: the count byte value is marked as used");
#if FF_ST >= 4
    V_CANARY("pending run flushed");
#endif
  } else {
    V_ASSERT(s->nblock == nb, "final flush: nothing is appended when no count byte is pending");
#if FF_ST < 4
    V_CANARY("nothing pending");
#endif
  }
  V_ASSERT(s->nblock <= FF_CAP, "final flush: the block never exceeds its capacity");
  { int ok = 1; for (i = 0; i < FF_CAP; i++) if (i < nb && block[i] != before[i]) ok = 0; V_ASSERT(ok, "final flush: the bytes already in the block are unchanged"); }
  { int ok = 1; for (i = 0; i < 256; i++) if (s->cmap[i] != was[i] && !(st >= 4 && i == (unsigned)(st - 4))) ok = 0; V_ASSERT(ok, "final flush: no other in-use mark changes"); }
}


/* ================= generate_prefix_code(): group (selector) count, number of tables tried, completion of the last group (C02, C08) ================= */
#ifndef GC_NM_MAX
#define GC_NM_MAX 70            /* symbols actually stored in the stand-in array; the counts below are checked for the full range */
#endif
void h_group_count(void)
{
  struct es_standin *s = &W;
  V_IN(uint32_t, nm0);
  V_IN(uint32_t, as0);
  static uint16_t mtfv[GC_NM_MAX + GROUP_SIZE + 2];
  uint32_t nm = nm0, as = as0, nt = 0, i;
  V_ASSUME(nm0 >= 2 && nm0 <= GC_NM_MAX && as0 >= MIN_ALPHA_SIZE && as0 <= MAX_ALPHA_SIZE);
  for (i = 0; i < GC_NM_MAX + GROUP_SIZE + 2; i++) mtfv[i] = 7;
#include "src/extract/group_count.inc"
  V_ASSERT(s->u.s.num_selectors == (nm0 + 49) / 50 && s->u.s.num_selectors * 50 >= nm0 && (s->u.s.num_selectors - 1) * 50 < nm0, "groups: one selector per started group of 50 symbols");
  V_ASSERT(nt >= 1 && nt <= MAX_TREES, "tables tried: between 1 and 6");
  { int ok = 1; for (i = 0; i < GC_NM_MAX + GROUP_SIZE + 2; i++) { uint16_t want = (i >= nm0 && i < s->u.s.num_selectors * 50) ? (uint16_t)as0 : 7; if (mtfv[i] != want) ok = 0; }
    V_ASSERT(ok, "groups: the last group is completed with the dummy symbol, nothing else is written (no write beyond the group)"); }
  if (nm0 == GC_NM_MAX) V_CANARY("largest stored block");
}

/* ================= transmit(): the block header (C02: block magic, CRC field, "no block is randomised", primary index) ================= */
void h_block_header(void)
{
  struct encoder_state *s = &W2.e;
  V_IN(uint32_t, crc);
  V_IN(uint32_t, idx);
  uint32_t out[4] = { 0, 0, 0, 0 }; uint32_t *p = out; uint64_t b = 0; unsigned k = 0;
  V_ASSUME(idx < (1u << 24));                  /* primary index < block size <= 900000 */
  s->block_crc = crc; s->bwt_idx = idx;
#include "src/extract/block_header.inc"
  V_ASSERT(p == out + 3 && k == 9, "block header: 96 bits are written out, 9 bits stay buffered");
  uint32_t w0 = ntohl(out[0]), w1 = ntohl(out[1]), w2 = ntohl(out[2]);
  V_ASSERT(w0 == 0x31415926u && (w1 >> 16) == 0x5359u, "block header: begins with the 48-bit block magic 0x314159265359");
  V_ASSERT((((w1 & 0xFFFFu) << 16) | (w2 >> 16)) == (crc ^ 0xFFFFFFFFu), "block header: the stored block CRC is the complement of the running CRC (the value combine_crc/do_reorder use)");
  V_ASSERT(((w2 >> 15) & 1u) == 0, "block header: the randomisation bit is 0 (no block is randomised)");
  V_ASSERT((((w2 & 0x7FFFu) << 9) | (uint32_t)(b & 0x1FFu)) == idx, "block header: followed by the 24-bit primary index");
  V_CANARY("block header");
}


/* ================= transmit(): table count, selector count, unary selector codes (C02: "2-6 prefix tables ... at most 18002 selectors") ================= */
#define SS_N 3          /* selectors in the stand-in block */
void h_selector_send(void)
{
  struct es_standin *s = &W;
  V_IN(unsigned, nt);
  V_IN(unsigned, k0);
  V_IN_ARR(uint8_t, mv, SS_N);
  uint32_t out[4] = { 0, 0, 0, 0 }; uint32_t *p = out; uint64_t b = 0; unsigned k, t, v, i; uint8_t *sp;
  V_ASSUME(nt >= MIN_TREES && nt <= MAX_TREES && (k0 == 9 || k0 == 25));          /* 9 bits buffered after the header, plus 16 for the map's first level */
  for (i = 0; i < SS_N; i++) { V_ASSUME(mv[i] < nt); s->u.s.selectorMTF[i] = mv[i]; }       /* MTF positions are below the table count (encode.selector_mtf.*) */
  s->u.s.num_trees = nt; s->u.s.num_selectors = SS_N;
  k = k0 + 0; b = 0;          /* the earlier bits are zero here: only what this section appends is examined */
  k = (k0 == 9 ? 9 : 25);
#include "src/extract/selector_send.inc"
  /* rebuild the appended bit string: everything written to out[] plus the k buffered bits, after the first k0 bits */
  unsigned total = 32 * (unsigned)(p - out) + k, pos = k0, j; int ok = 1;
  uint8_t bits[128]; for (i = 0; i < 128; i++) bits[i] = 0;
  for (i = 0; i < 128; i++) if (i < total) { unsigned w = i / 32; bits[i] = (w < (unsigned)(p - out)) ? (ntohl(out[w]) >> (31 - i % 32)) & 1u : (unsigned)((b >> (k - 1 - (i - 32 * (unsigned)(p - out)))) & 1u); }
  { unsigned x = 0; for (j = 0; j < 3; j++) x = (x << 1) | bits[pos++]; V_ASSERT(x == nt, "3-bit table count"); }
  { unsigned x = 0; for (j = 0; j < 15; j++) x = (x << 1) | bits[pos++]; V_ASSERT(x == SS_N, "15-bit selector count"); }
  for (i = 0; i < SS_N; i++) { for (j = 0; j < 6; j++) if (j < mv[i]) { if (bits[pos++] != 1) ok = 0; } if (bits[pos++] != 0) ok = 0; }
  V_ASSERT(ok && pos == total, "each selector is sent in unary: its MTF position in ones, then a zero; nothing else is appended");
  V_CANARY("selectors sent");
}


/* ================= transmit(): code-length tables (C02 strict well-formedness: start value and every delta step within 1..20; C01) ================= */
#ifndef TS_AS
#define TS_AS 3         /* symbols per table in the stand-in block */
#define TS_LMAX 6       /* code lengths 1..TS_LMAX here (bounds the number of delta steps) */
#endif
void h_tables_send(void)
{
  struct es_standin *s = &W;
  V_IN(unsigned, pad);
  V_IN_ARR(uint8_t, l0, TS_AS);
  V_IN_ARR(uint8_t, l1, TS_AS);
  uint32_t out[8]; uint32_t *p = out; uint64_t b = 0; unsigned k = 0, t, v, i, as = TS_AS;
  V_ASSUME(pad <= 3);
  for (i = 0; i < 8; i++) out[i] = 0;
  for (i = 0; i < TS_AS; i++) { V_ASSUME(l0[i] >= 1 && l0[i] <= TS_LMAX && l1[i] >= 1 && l1[i] <= TS_LMAX); s->u.s.length[0][i] = l0[i]; s->u.s.length[1][i] = l1[i]; }
  s->u.s.num_trees = 2; s->u.s.tmap_new2old[0] = 0; s->u.s.tmap_new2old[1] = 1; s->u.s.tree_pad = pad;
#include "src/extract/tables_send.inc"
  /* read the bits back with the strict decoder of bzip2 1.0.x: 5-bit start value, then per symbol: while next bit is 1, next bit 0 => +1, 1 => -1; range 1..20 checked at every step */
  unsigned total = 32 * (unsigned)(p - out) + k, pos = 0; int ok = 1, inrange = 1;
  uint8_t bits[256]; for (i = 0; i < 256; i++) bits[i] = 0;
  for (i = 0; i < 256; i++) if (i < total) { unsigned w = i / 32; bits[i] = (w < (unsigned)(p - out)) ? (ntohl(out[w]) >> (31 - i % 32)) & 1u : (unsigned)((b >> (k - 1 - (i - 32 * (unsigned)(p - out)))) & 1u); }
  for (t = 0; t < 2; t++) {
    int cur = 0; unsigned j; for (j = 0; j < 5; j++) cur = (cur << 1) | bits[pos < 255 ? pos++ : 255];
    for (v = 0; v < TS_AS; v++) {
      unsigned guard;
      for (guard = 0; guard < 2 * TS_LMAX + 8; guard++) {
        if (cur < 1 || cur > 20) inrange = 0;
        if (bits[pos < 255 ? pos++ : 255] == 0) break;
        cur += bits[pos < 255 ? pos++ : 255] ? -1 : 1;
      }
      if (cur != (int)(t == 0 ? l0[v] : l1[v])) ok = 0;
    }
  }
  V_ASSERT(inrange, "tables: the start value and every intermediate code length stay within 1..20 (strict bzip2 1.0.x rule), padding steps included");
  V_ASSERT(ok, "tables: decoding the transmitted bits yields exactly the code lengths of both tables");
  V_ASSERT(pos == total, "tables: nothing else is appended");
  V_CANARY("tables sent");
}

#ifdef VERIF_REPLAY
int main(void) { HARNESS(); puts("REPLAY-PASS"); return 0; }
#endif
