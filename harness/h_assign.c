/* assign_codes() / package_merge() (src/encode.c): the table actually transmitted for a group class, against the definition of
   an optimal complete prefix code, for small alphabets with symbolic frequencies (C20 O20.1, C02 O2.5). */
#include "verif.h"
#include "src/encode.c"

int32_t divbwt(uint8_t *T, int32_t *SA, int32_t *bucket, int32_t n) { int32_t r; return r; }

#ifndef AC_AS
#define AC_AS 4                 /* alphabet size (concrete per instance) */
#endif
#ifndef AC_FBITS
#define AC_FBITS 12             /* frequencies are symbolic AC_FBITS-bit numbers */
#endif

/* every multiset of code lengths of a complete prefix code on AC_AS symbols (Kraft sum exactly 1), ascending */
#if AC_AS == 2
static const unsigned SHAPES[][AC_AS] = { { 1, 1 } };
#elif AC_AS == 3
static const unsigned SHAPES[][AC_AS] = { { 1, 2, 2 } };
#elif AC_AS == 4
static const unsigned SHAPES[][AC_AS] = { { 2, 2, 2, 2 }, { 1, 2, 3, 3 } };
#elif AC_AS == 5
static const unsigned SHAPES[][AC_AS] = { { 2, 2, 2, 3, 3 }, { 1, 3, 3, 3, 3 }, { 1, 2, 3, 4, 4 } };
#endif
#define NSHAPES (sizeof SHAPES / sizeof SHAPES[0])

void h_assign_codes(void)
{
  uint32_t code[MAX_ALPHA_SIZE + 1]; uint8_t length[MAX_ALPHA_SIZE + 1]; uint32_t freq[MAX_ALPHA_SIZE + 1];
  V_IN_ARR(uint32_t, f, AC_AS);
  unsigned i, j, k;
  for (i = 0; i < AC_AS; i++) { V_ASSUME(f[i] < (1u << AC_FBITS)); freq[i] = f[i]; length[i] = 0; code[i] = 0; }
  uint32_t ret = assign_codes(code, length, freq, AC_AS);
  /* ---- a complete prefix code with lengths 1..20 */
  unsigned mx = 0; uint64_t kraft = 0; uint64_t coded = 0; unsigned tcost = 5 + AC_AS;
  for (i = 0; i < AC_AS; i++) {
    V_ASSERT(length[i] >= 1 && length[i] <= MAX_CODE_LENGTH, "every code length is within 1..20");
    if (length[i] > mx) mx = length[i];
    kraft += (uint64_t)1 << (MAX_CODE_LENGTH - length[i]);
    coded += (uint64_t)f[i] * length[i];
    V_ASSERT(code[i] < (1u << length[i]), "each code fits its length");
    if (i > 0) tcost += 2 * (length[i] > length[i - 1] ? length[i] - length[i - 1] : length[i - 1] - length[i]);
  }
  V_ASSERT(kraft == ((uint64_t)1 << MAX_CODE_LENGTH), "the code is complete (Kraft sum exactly 1)");
  for (i = 0; i < AC_AS; i++) for (j = 0; j < AC_AS; j++) if (i != j && length[i] <= length[j])
    V_ASSERT((code[j] >> (length[j] - length[i])) != code[i], "no code is a prefix of another");
  /* ---- optimality: no complete code whose longest length is <= this table's longest costs fewer bits for these frequencies.
     For a fixed multiset of lengths the cheapest assignment gives shorter codes to more frequent symbols; the frequencies are
     sorted here by a transparent selection sort. */
  uint32_t g[AC_AS]; for (i = 0; i < AC_AS; i++) g[i] = f[i];
  for (i = 0; i < AC_AS; i++) for (j = i + 1; j < AC_AS; j++) if (g[j] > g[i]) { uint32_t t = g[i]; g[i] = g[j]; g[j] = t; }   /* descending */
  for (k = 0; k < NSHAPES; k++) {
    if (SHAPES[k][AC_AS - 1] > mx) continue;                   /* longer than this table's longest code: outside the comparison class */
    uint64_t c = 0; for (i = 0; i < AC_AS; i++) c += (uint64_t)g[i] * SHAPES[k][i];
    V_ASSERT(coded <= c, "total coded length is minimal among all complete prefix codes no longer than this table's longest code");
  }
  V_ASSERT(ret == coded + tcost, "the returned cost is the coded length plus the table's transmitted size");
  if (mx == SHAPES[NSHAPES - 1][AC_AS - 1]) V_CANARY("most skewed shape chosen");
  if (mx == SHAPES[0][AC_AS - 1]) V_CANARY("flattest shape chosen");
}

#ifdef VERIF_REPLAY
int main(void) { HARNESS(); puts("REPLAY-PASS"); return 0; }
#endif
