/* C14 lemmas about the generated scanner tables (src/scantab.h, included
   unmodified).  Specification side: the literal 48-bit pattern and the
   textbook definition "state = length of the longest suffix of the bits read
   so far that is a prefix of the pattern" -- nothing is taken from
   make-scantab.pl or from the tables. */
#include <stdint.h>
#include "verif.h"
#include "src/scantab.h"

#define PATTERN 0x314159265359ull      /* from the property statement */
#define PLEN 48

/* longest k <= min(n,48) such that the last k bits of history h (n bits long,
   newest bit in bit 0) equal the first k bits of the pattern */
static unsigned border(uint64_t h, unsigned n)
{
  unsigned k, best = 0;
  for (k = 1; k <= PLEN; k++) {
    uint64_t mask = (k == 64) ? ~0ull : ((1ull << k) - 1);
    if (k <= n && (h & mask) == (PATTERN >> (PLEN - k)))
      best = k;
  }
  return best;
}

/* Lemma M (induction step): if the automaton is in the state that the
   definition assigns to history h (and that state is not ACCEPT), then after
   reading bit b it is in the state the definition assigns to h.b .
   Histories are kept to the last 60 bits, which is all a 48-bit border can
   depend on; n is the true number of bits read so far capped at 59. */
void h_lemma_mini(void)
{
  V_IN(uint64_t, h);
  V_IN(unsigned, n);
  V_IN(unsigned, b);
  V_ASSUME(n <= 59 && b <= 1);
  V_ASSUME((h >> n) == 0);            /* bits that were never read are not part of the history */
  unsigned s = border(h, n);
  V_ASSERT(ACCEPT == PLEN, "ACCEPT is the pattern length");
  if (s < PLEN) {
    unsigned s2 = mini_dfa[s][b];
    unsigned want = border((h << 1) | b, n + 1);
    V_ASSERT(s2 == want, "mini_dfa step equals longest-border step");
    if (want == 3) V_CANARY("lemma_mini reachable");
  }
}

/* Lemma M0: the start state 0 is the state of the empty history. */
void h_lemma_mini_base(void)
{
  V_ASSERT(border(0, 0) == 0, "state of empty history is 0");
  V_CANARY("lemma_mini_base reachable");
}

/* Lemma B: big_dfa[s][c] equals eight mini_dfa steps on the bits of c, most
   significant first, with ACCEPT absorbing; all 49 x 256 entries. */
void h_lemma_big(void)
{
  V_IN(unsigned, s);
  V_IN(unsigned, c);
  V_ASSUME(s <= 48 && c <= 255);
  unsigned t = s, i;
  for (i = 0; i < 8; i++) {
    unsigned bit = (c >> (7 - i)) & 1;
    if (t != PLEN)
      t = mini_dfa[t][bit];
  }
  V_ASSERT(big_dfa[s][c] == t, "big_dfa entry equals eight mini_dfa steps (ACCEPT absorbing)");
  if (t == PLEN && s == 40) V_CANARY("lemma_big reaches ACCEPT");
}

#ifdef VERIF_REPLAY
int main(void) { HARNESS(); puts("REPLAY-PASS"); return 0; }
#endif
