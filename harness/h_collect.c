/* C04 / C01 / C02: one-step conformance of the real collect() (src/encode.c) against the greedy run-length
   packing rule written from the property statement, from every representable saved state. */
#include "verif.h"
#include "src/encode.c"

#ifndef CAP
#define CAP 3          /* block capacity M (max_block_size) */
#endif
#ifndef FILL
#define FILL 1         /* bytes already in the block */
#endif
#ifndef RUNK
#define RUNK 1         /* saved run state k: 0, 1..3 = copies already stored, >= 4 = four copies stored and k-4 pending */
#endif
#ifndef NIN
#define NIN 2          /* input bytes offered in this call */
#endif

int32_t divbwt(uint8_t *T, int32_t *SA, int32_t *bucket, int32_t n) { int32_t r; return r; }

static struct { struct encoder_state e; int32_t tail[CAP + GROUP_SIZE + (CAP + 8) / 4 + 2]; } W;

/* ---- specification: the packing rule, one input byte at a time ---- */
struct rle_spec {
  uint8_t out[CAP + 2]; unsigned nb;  /* run-length encoded bytes of the block */
  unsigned k; unsigned ch;            /* current run: k equal bytes ch seen (k >= 4: four stored, count k-4 pending) */
  int full;                           /* the next input byte does not fit: block is closed */
  uint32_t crc; bool cmap[256];
};
static void spec_put(struct rle_spec *s, unsigned b) { s->out[s->nb++] = (uint8_t)b; s->cmap[b] = true; }
static uint32_t spec_crc(uint32_t crc, unsigned b) { return (crc << 8) ^ crc_table[(crc >> 24) ^ b]; }
/* returns 1 if the byte was taken into the block */
static int spec_byte(struct rle_spec *s, unsigned b)
{
  if (s->full) return 0;
  if (s->k >= 4) {
    if (b == s->ch) {                                   /* run continues: only the count grows */
      s->k++; s->crc = spec_crc(s->crc, b);
      if (s->k == 4 + 255) { spec_put(s, 255); s->k = 0; if (s->nb == CAP) s->full = 1; }   /* runs are cut at 259 */
      return 1;
    }
    spec_put(s, s->k - 4); s->k = 0;                    /* run ends: its count byte (space was reserved) */
    if (s->nb == CAP) { s->full = 1; return 0; }
  }
  if (s->k >= 1 && b == s->ch) {
    if (s->k == 3) {                                    /* a fourth equal byte is taken only if it and its count fit */
      if (s->nb + 2 > CAP) { s->full = 1; return 0; }
      s->out[s->nb++] = (uint8_t)b; s->k = 4; s->crc = spec_crc(s->crc, b);
      return 1;
    }
    if (s->nb + 1 > CAP) { s->full = 1; return 0; }
    s->out[s->nb++] = (uint8_t)b; s->k++; s->crc = spec_crc(s->crc, b);
    if (s->nb == CAP) s->full = 1;
    return 1;
  }
  if (s->nb + 1 > CAP) { s->full = 1; return 0; }
  spec_put(s, b); s->ch = b; s->k = 1; s->crc = spec_crc(s->crc, b);
  if (s->nb == CAP) s->full = 1;
  return 1;
}

void h_collect_step(void)
{
  struct encoder_state *s = &W.e;
  uint8_t *block = (void *)(s->SA + CAP + GROUP_SIZE);
#ifdef PATTERN        /* concrete input bytes: whole runs inside ONE call (the in-line run loop of collect()) are out of reach with symbolic bytes,
                         because every stored byte indexes the 270 KB encoder object (in-use map) -- measured: 5 symbolic bytes do not finish */
  static const uint8_t in_pat[NIN] = PATTERN; uint8_t in_buf[NIN]; uint8_t *in = in_buf;
  { unsigned k; for (k = 0; k < NIN; k++) in_buf[k] = in_pat[k]; }
#else
  V_IN_ARR(uint8_t, in, NIN);
#endif
  V_IN_ARR(uint8_t, pre, CAP + 1);
  V_IN(uint32_t, crc0);
  V_IN(unsigned, ch0);
  unsigned i;
  struct rle_spec sp;
  /* a saved state the encoder can be in between two calls */
  V_ASSUME(ch0 <= 255);
#if defined(PATTERN) || defined(CRC_START)
  V_ASSUME(crc0 == 0xFFFFFFFFu);          /* as encoder_init() leaves it; a symbolic start value turns the 9-step CRC chain into a 220 s equivalence proof */
#endif
  s->max_block_size = CAP; s->nblock = FILL; s->rle_state = RUNK; s->rle_character = ch0; s->block_crc = crc0;
  sp.nb = FILL; sp.k = RUNK; sp.ch = ch0; sp.full = 0; sp.crc = crc0;
  for (i = 0; i < 256; i++) { bool b; s->cmap[i] = b; sp.cmap[i] = b; }
  for (i = 0; i < FILL; i++) { block[i] = pre[i]; sp.out[i] = pre[i]; }
  { unsigned stored = RUNK >= 4 ? 4 : RUNK; for (i = 0; i < stored; i++) V_ASSUME(pre[FILL - 1 - i] == ch0); }   /* the run's copies are the block's tail */
  V_ASSUME(RUNK != 0 || 1);
  size_t n = NIN;
  int rv = collect(s, in, &n);
  unsigned taken = 0;
  for (i = 0; i < NIN; i++) { if (!spec_byte(&sp, in[i])) break; taken++; }
  if (FILL == CAP) sp.full = 1;
  V_ASSERT(NIN - n == taken, "collect consumes exactly the input bytes that still fit under the packing rule");
  V_ASSERT((rv != 0) == (sp.full != 0), "collect reports 'block full' exactly when the rule closes the block");
  V_ASSERT(s->nblock == sp.nb, "run-length encoded block length follows the rule (4 copies + count, runs cut at 259)");
  { int same = 1; for (i = 0; i < CAP; i++) if (i < sp.nb && block[i] != sp.out[i]) same = 0; V_ASSERT(same, "run-length encoded block bytes follow the rule"); }
  if (!sp.full) V_ASSERT((unsigned)s->rle_state == sp.k && (sp.k == 0 || s->rle_character == sp.ch), "saved run state is the rule's pending run");
  if (sp.full) V_ASSERT(s->rle_state == -1, "full block is marked");
  V_ASSERT(s->block_crc == sp.crc, "block CRC covers exactly the consumed input bytes");
  { int same = 1; for (i = 0; i < 256; i++) if (s->cmap[i] != sp.cmap[i]) same = 0; V_ASSERT(same, "in-use map marks exactly the byte values stored in the block"); }
  V_ASSERT(s->nblock <= CAP, "block never exceeds its capacity");
  V_CANARY("collect step");
}

/* encoder_init(): the state every block starts from is the empty saved state the collect() instances start from (fill 0, run state 0),
   with the CRC start value and an empty in-use map; capacity and clustering factor as given. */
void h_encoder_init(void)
{
  struct encoder_state *s = &W.e;
  V_IN(unsigned long, mbs);
  V_IN(unsigned, cf);
  unsigned i;
  V_ASSUME(mbs >= 1 && mbs <= MAX_BLOCK_SIZE && cf >= 1 && cf <= 65535);
  for (i = 0; i < 256; i++) { bool b; s->cmap[i] = b; }
  { int r; unsigned n; uint32_t c; s->rle_state = r; s->nblock = n; s->block_crc = c; }       /* leftovers */
  encoder_init(s, mbs, cf);
  V_ASSERT(s->max_block_size == mbs && s->cluster_factor == cf, "encoder_init: capacity and clustering factor as requested");
  V_ASSERT(s->rle_state == 0 && s->nblock == 0 && s->block_crc == 0xFFFFFFFFu, "encoder_init: empty block, no pending run, CRC start value");
  { int ok = 1; for (i = 0; i < 256; i++) if (s->cmap[i]) ok = 0; V_ASSERT(ok, "encoder_init: no byte value is marked used"); }
  V_CANARY("encoder_init");
}

/* make_map_e(): the symbol map of the block -- used byte values are numbered consecutively in ascending order. */
void h_make_map_e(void)
{
  uint8_t cmap[256]; bool inuse[256];
  V_IN(unsigned, q);
  unsigned i;
  V_ASSUME(q < 255);
  for (i = 0; i < 256; i++) { uint8_t r; inuse[i] = (r & 1) != 0; }      /* proper bool values (collect() only ever stores true) */
  unsigned n = make_map_e(cmap, inuse);
  /* local characterisation (defines the map by induction over the byte value; no 256-term sums for the solver) */
  V_ASSERT(cmap[0] == 0, "make_map_e: numbering starts at 0");
  V_ASSERT(cmap[q + 1] == (uint8_t)(cmap[q] + (inuse[q] ? 1 : 0)), "make_map_e: the number advances by one exactly after a used byte value (ascending, gap-free numbering)");
  V_ASSERT(n == (unsigned)cmap[255] + (inuse[255] ? 1 : 0) || (n == 256 && cmap[255] == 255 && inuse[255]), "make_map_e: returns the number of byte values in use");
  if (n == 256) V_CANARY("all values used");
  if (n == 1) V_CANARY("one value used");
}

#ifdef VERIF_REPLAY
int main(void) { HARNESS(); puts("REPLAY-PASS"); return 0; }
#endif
