/* Harnesses over src/signals.c with a ghost model of POSIX signal state (assumed contracts). */
#include "verif.h"
#include "src/signals.c"
#include <string.h>

#define BIT(s) ((unsigned long)1 << (s))
#define HANDLED_BITS (BIT(SIGUSR1) | BIT(SIGUSR2) | BIT(SIGINT) | BIT(SIGTERM))
#define BLOCKED_BITS (BIT(SIGPIPE) | BIT(SIGXFSZ))

/* ---- ghost signal state of the calling thread / process */
unsigned long g_mask;             /* signals blocked in the calling thread */
unsigned long g_pending_thread;   /* pending for the calling thread only */
unsigned long g_promoted;         /* re-raised for the whole process with kill(pid, sig) */
int g_is_main;                    /* calling thread is the main thread */
int g_cleanup_done, g_cleanup_calls;
int g_exit_status = -1, g_thread_exited;
int g_usr1_sent;
enum { ACT_OTHER, ACT_DFL, ACT_HANDLER };
int g_action[65];
int g_reraised;                   /* SIGINT/SIGTERM re-raised by terminate() */

/* sigset_t as a bit set in its first word */
int sigemptyset(sigset_t *s) { memset(s, 0, sizeof(*s)); return 0; }
int sigaddset(sigset_t *s, int sig) { if (sig < 1 || sig > 64) return -1; s->__val[0] |= BIT(sig); return 0; }
int sigismember(const sigset_t *s, int sig) { if (sig < 1 || sig > 64) return -1; return (s->__val[0] & BIT(sig)) != 0; }
int sigpending(sigset_t *s) { memset(s, 0, sizeof(*s)); s->__val[0] = g_pending_thread; return 0; }
int pthread_sigmask(int how, const sigset_t *set, sigset_t *old)
{
  if (old) { memset(old, 0, sizeof(*old)); old->__val[0] = g_mask; }
  if (set) {
    unsigned long b = set->__val[0];
    if (how == SIG_BLOCK) g_mask |= b;
    else if (how == SIG_UNBLOCK) {
      /* unblocking SIGPIPE/SIGXFSZ may deliver a pending one with default action = death:
         nothing that must not be lost may be outstanding at that moment */
      if (b & BLOCKED_BITS)
        __CPROVER_assert(!g_is_main || g_cleanup_done, "SIGPIPE/SIGXFSZ are unblocked in the main thread only after cleanup() removed the partial output");
      g_mask &= ~b;
    }
    else g_mask = b;
  }
  return 0;
}
int sigprocmask(int how, const sigset_t *set, sigset_t *old) { return pthread_sigmask(how, set, old); }
int sigaction(int sig, const struct sigaction *act, struct sigaction *old)
{
  if (act) g_action[sig] = act->sa_handler == SIG_DFL ? ACT_DFL : act->sa_handler == signal_handler ? ACT_HANDLER : ACT_OTHER;
  return 0;
}
pid_t getpid(void) { return 4242; }
pthread_t pthread_self(void) { return (pthread_t)(g_is_main ? 1 : 2); }
int pthread_equal(pthread_t a, pthread_t b) { return a == b; }
void pthread_exit(void *rv)
{
  __CPROVER_assert(!g_is_main, "only sub-threads end with pthread_exit");
  __CPROVER_assert(g_usr1_sent, "a failing sub-thread notifies the main thread (SIGUSR1) before it exits");
  __CPROVER_assert(g_cleanup_calls == 0, "sub-threads never run cleanup()");
  g_thread_exited = 1; __CPROVER_assume(0);
}
int kill(pid_t p, int sig)
{
  __CPROVER_assert(p == 4242, "signals are sent to the own process");
  if (sig == SIGUSR1) {
    __CPROVER_assert((g_promoted & BLOCKED_BITS) == (g_pending_thread & BLOCKED_BITS), "SIGUSR1 is sent only after every SIGPIPE/SIGXFSZ pending on this thread was promoted to the process");
    g_usr1_sent = 1;
  } else if (sig == SIGPIPE || sig == SIGXFSZ) {
    __CPROVER_assert(g_pending_thread & BIT(sig), "only signals actually pending on the thread are promoted");
    g_promoted |= BIT(sig);
  } else if (sig == SIGINT || sig == SIGTERM) {
    __CPROVER_assert(g_cleanup_done, "SIGINT/SIGTERM are re-raised only after cleanup() removed the partial output");
    __CPROVER_assert(g_action[sig] == ACT_DFL, "the re-raised signal has its default action restored");
    g_reraised = sig;
  }
  return 0;
}
void cleanup(void) { __CPROVER_assert(g_is_main, "cleanup() runs on the main thread"); g_cleanup_calls++; g_cleanup_done = 1; }
void _exit(int st)
{
  __CPROVER_assert(st == EX_FAIL, "abnormal termination exits with status 1 (never 0)");
  __CPROVER_assert(g_is_main && g_cleanup_done, "_exit(1) only on the main thread and after cleanup()");
  g_exit_status = st;
  if (g_reraised) __CPROVER_assert(!(g_mask & BIT(g_reraised)), "the re-raised signal is unblocked before _exit so that the process dies from it");
  else __CPROVER_assert((g_mask & BLOCKED_BITS) == 0, "SIGPIPE/SIGXFSZ are unblocked before _exit(1) so that a broken pipe / file size limit kills with the signal");
  __CPROVER_assert(0, "CANARY _exit reached");
  __CPROVER_assume(0);
}
int g_suspend_sig;
int sigsuspend(const sigset_t *m)
{
  __CPROVER_assert(m == &saved, "halt() suspends with the mask saved by cli()");
  __CPROVER_assert((m->__val[0] & HANDLED_BITS) == 0, "the suspend mask lets SIGUSR1/SIGUSR2/SIGINT/SIGTERM in");
  __CPROVER_assert((g_mask & HANDLED_BITS) == HANDLED_BITS, "outside sigsuspend the handled signals are blocked (delivered only here)");
  int s; __CPROVER_assume(s == SIGUSR1 || s == SIGUSR2 || s == SIGINT || s == SIGTERM);
  __CPROVER_assert(g_action[s] == ACT_HANDLER, "handled signals have the handler installed while waiting");
  g_suspend_sig = s;
  signal_handler(s);            /* the real handler runs */
  errno = EINTR;
  return -1;
}

static void init_state(void)
{

  g_cleanup_done = 0; g_cleanup_calls = 0; g_usr1_sent = 0; g_promoted = 0; g_reraised = 0; g_exit_status = -1;
  /* result of setup_signals(): */
  pid = 4242; main_thread = (pthread_t)1;
  sigemptyset(&blocked); sigaddset(&blocked, SIGPIPE); sigaddset(&blocked, SIGXFSZ);
  sigemptyset(&handled); sigaddset(&handled, SIGUSR1); sigaddset(&handled, SIGUSR2); sigaddset(&handled, SIGINT); sigaddset(&handled, SIGTERM);
}

/* O7.3 / O16.4 / O21.2: bailout() on the main thread and on a sub-thread */
void h_bailout(void)
{
  init_state();
  { int m; g_is_main = (m != 0); }
  { unsigned long p; g_pending_thread = p; }
  { unsigned long k; g_mask = k | BLOCKED_BITS; }         /* SIGPIPE/SIGXFSZ blocked in every thread since setup_signals() */
  bailout();
  V_ASSERT(0, "bailout() never returns");
}

/* O16.3: halt() */
void h_halt(void)
{
  init_state();
  g_is_main = 1; g_pending_thread = 0;
  /* state established by cli(): handled signals blocked, handler installed, saved = mask before */
  { unsigned long k; g_mask = (k & ~HANDLED_BITS) | BLOCKED_BITS; }
  cli();
  halt();
  /* normal return */
  V_ASSERT(g_suspend_sig == SIGUSR2, "halt() returns normally only for SIGUSR2 (successful completion)");
  V_ASSERT(g_cleanup_calls == 0 && g_exit_status == -1, "successful completion removes nothing");
  V_CANARY("halt returns on SIGUSR2");
}

/* cli()/sti(): balanced pair */
void h_cli_sti(void)
{
  init_state();
  g_is_main = 1;
  unsigned long k; g_mask = (k & ~HANDLED_BITS) | BLOCKED_BITS;
  unsigned long before = g_mask;
  cli();
  V_ASSERT((g_mask & HANDLED_BITS) == HANDLED_BITS && saved.__val[0] == before, "cli(): handled signals blocked, previous mask saved");
  V_ASSERT(g_action[SIGINT] == ACT_HANDLER && g_action[SIGTERM] == ACT_HANDLER && g_action[SIGUSR1] == ACT_HANDLER && g_action[SIGUSR2] == ACT_HANDLER, "cli(): handler installed for all four");
  sti();
  V_ASSERT(g_mask == before, "sti(): mask restored");
  V_ASSERT(g_action[SIGINT] == ACT_DFL && g_action[SIGTERM] == ACT_DFL && g_action[SIGUSR1] == ACT_DFL && g_action[SIGUSR2] == ACT_DFL, "sti(): default actions restored");
  V_CANARY("cli/sti");
}

/* setup_signals(): establishes what the other harnesses start from */
void h_setup_signals(void)
{
  unsigned long k; g_mask = k;
  setup_signals();
  V_ASSERT((g_mask & HANDLED_BITS) == 0, "setup_signals(): handled signals unblocked even if inherited blocked");
  V_ASSERT((g_mask & BLOCKED_BITS) == BLOCKED_BITS, "setup_signals(): SIGPIPE and SIGXFSZ blocked (inherited by all sub-threads)");
  V_ASSERT(blocked.__val[0] == BLOCKED_BITS && handled.__val[0] == HANDLED_BITS && pid == 4242, "setup_signals(): signal sets as documented");
  V_CANARY("setup_signals");
}
