/* Harnesses over src/process.c (woven: contracts/process.c.spec). */
#include "verif.h"
#include "src/process.c"
#include "c12_undef.h"
int verif_lock_ok(int guard) { return 1; }     /* xread/xwrite/work(): run before any thread of the run exists; the thread procedures are checked in h_proc.c */

#include "process_contracts.h"

/* ---- pthread primitives: sequential monitor model (DESIGN 1.4).  A mutex is a ghost flag; taking it when
   held or releasing it when free is an obligation failure; waiting on a condition variable releases the
   monitor, lets every other thread run (havoc of the variables that monitor protects, constrained only by
   the monitor invariant assumed by the harness through the hook below) and re-acquires it. */
int g_held_source, g_held_sink, g_held_sched;
static int *held_flag(pthread_mutex_t *m)
{ return m == &source_mutex ? &g_held_source : m == &sink_mutex ? &g_held_sink : &g_held_sched; }
void env_runs(pthread_mutex_t *m);          /* per-harness: havoc + assume monitor invariant */
int pthread_mutex_lock(pthread_mutex_t *m)
{
  __CPROVER_assert(m == &source_mutex || m == &sink_mutex || m == &sched_mutex, "lock: known mutex");
  __CPROVER_assert(!*held_flag(m), "lock: mutex not already held by this thread");
  env_runs(m);
  *held_flag(m) = 1; return 0;
}
int pthread_mutex_unlock(pthread_mutex_t *m)
{
  __CPROVER_assert(*held_flag(m), "unlock: mutex held by this thread");
  *held_flag(m) = 0; return 0;
}
int pthread_cond_wait(pthread_cond_t *c, pthread_mutex_t *m)
{
  __CPROVER_assert(*held_flag(m), "cond_wait: mutex held");
  __CPROVER_assert((c == &source_cond && m == &source_mutex) || (c == &sink_cond && m == &sink_mutex) || (c == &sched_cond && m == &sched_mutex), "cond_wait: condition variable paired with its mutex");
  env_runs(m);
  return 0;
}
int g_signals_source, g_signals_sink, g_signals_sched;
int pthread_cond_signal(pthread_cond_t *c)
{ if (c == &source_cond) g_signals_source = 1; else if (c == &sink_cond) g_signals_sink = 1; else g_signals_sched = 1; return 0; }
int pthread_cond_broadcast(pthread_cond_t *c) { return pthread_cond_signal(c); }
int g_threads_created;
int pthread_create(pthread_t *t, const pthread_attr_t *a, void *(*f)(void *), void *arg)
{ int r; if (r == 0) g_threads_created++; return r; }
int pthread_join(pthread_t t, void **rv) { return 0; }

/* ---- objects owned by other translation units */
struct filespec ispec, ospec;
unsigned num_worker; bool decompress, force, verbose, small, ultra; unsigned bs100k;

/* _Noreturn reporters (main.c): record, check their call-site precondition, never return */
void failfx(const struct filespec *f, int x, const char *fmt, ...)
{
  __CPROVER_assert((f == &ispec && g_rd_failed && g_rd_last == -1) || (f == &ospec && g_wr_failed),
                   "failfx() is reached only after read()/write() on that very file returned -1");
  g_reporter_called = 1;
  __CPROVER_assume(0);
}

void h_xread(void)
{
  void *buf; size_t *vacant;
  xread(buf, vacant);
  if (g_rd_last > 0) V_CANARY("xread returns with a full chunk");
  if (g_rd_last == 0) V_CANARY("xread returns short at end of file");
}

void h_xwrite(void)
{
  const void *buf; size_t size;
  xwrite(buf, size);
  if (ospec.fd == -1) V_CANARY("xwrite discards");
  if (ospec.fd != -1 && size > 1) V_CANARY("xwrite wrote");
}

const struct process compression, expansion;
void info(const char *fmt, ...) { }

/* failf (main.c, _Noreturn): in work() it may only report "not a valid bzip2 file" */
void failf(const struct filespec *f, const char *fmt, ...)
{
  __CPROVER_assert(f == &ispec && decompress && !WORK_HAS_HEADER && !(force && ospec.fd == STDOUT_FILENO) && g_work_vacant <= 4,
                   "work(): failf() only for decompression input without a BZh1-9 header and not in -cdf pass-through mode");
  __CPROVER_assert(g_sched_calls == 0 && g_copy_calls == 0 && g_wr_accepted == g_work_acc0, "work(): nothing was started or written before rejecting");
  g_reporter_called = 1;
  __CPROVER_assume(0);
}

/* O19.1 / O7.1 / O9.4: work() with every option combination and every outcome of the sniffing read */
void h_work(void)
{
  V_IN(unsigned, nw);
  V_IN(unsigned, lvl);
  V_IN(int, ofd);
  V_ASSUME(nw >= 1 && nw <= 1000000 && lvl >= 1 && lvl <= 9 && ofd >= -1);
  num_worker = nw; bs100k = lvl; ospec.fd = ofd; ispec.fd = 0;
  { bool b0, b1, b2, b3; decompress = b0; force = b1; small = b2; verbose = b3; }
  g_sched_calls = 0; g_copy_calls = 0; g_reporter_called = 0; g_rd_failed = 0; g_wr_failed = 0;
  V_ASSUME(g_rd_delivered < 1000 && g_wr_accepted < 1000 && ispec.total < 1000 && ospec.total < 1000);
  work();
  V_ASSERT(g_sched_calls + g_copy_calls == 1, "work(): exactly one of schedule()/copy() ran when it returns");
  V_ASSERT(g_copy_calls == 0 || (decompress && force && ofd == STDOUT_FILENO && !WORK_HAS_HEADER), "work(): copy() only in -cdf mode on non-bzip2 input");
  V_ASSERT(!decompress || !WORK_HAS_HEADER || g_sched_calls == 1, "work(): input with a BZh1-9 header is always handed to the decompressor");
  if (g_copy_calls == 1 && g_work_vacant == 2) V_CANARY("work copies a 2-byte input");
  if (g_sched_calls == 1 && decompress) V_CANARY("work decompresses");
  if (g_sched_calls == 1 && !decompress) V_CANARY("work compresses");
}

#ifndef ENV_RUNS_DEFINED
void env_runs(pthread_mutex_t *m) { }
int g_iter_stop; void verif_iteration_end(int which) { __CPROVER_assume(0); }   /* thread-loop harnesses live in h_proc.c */
#endif

#ifdef VERIF_REPLAY
int main(void) { HARNESS(); puts("REPLAY-PASS"); return 0; }
#endif
