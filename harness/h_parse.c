/* parse() (src/parse.c) under its contract; see contracts/parse_spec.h. */
#include "verif.h"
#include "src/parse.c"
#ifdef VERIF_REPLAY
#include "parse_spec.h"
struct ref_parser g_ref; unsigned g_w, g_live0, g_steps, g_did_align; uint64_t g_buff0; int g_ghost_on; unsigned g_scan_again;
#else
#include "parse_contracts.h"
#endif

/* contract enforcement entry: dfcc builds the symbolic pre-state from the requires clauses */
void h_parse(void)
{
  struct parser_state *ps; struct header *hd; struct bitstream *bs; unsigned *garbage;
  int rv = parse(ps, hd, bs, garbage);
  if (rv == OK) V_CANARY("parse returns OK");
  if (rv == FINISH) V_CANARY("parse returns FINISH");
  if (rv == MORE) V_CANARY("parse returns MORE");
  if (rv == ERR_STRMCRC) V_CANARY("parse returns ERR_STRMCRC");
  if (rv == ERR_EOF) V_CANARY("parse returns ERR_EOF");
}

/* parser_init establishes the coupling with a fresh reference (the 32-bit stream
   header has been consumed by work(), which passes its digit) */
void h_parser_init(void)
{
  struct parser_state ps;
  V_IN(int, level);
  V_IN(int, mode);
  parser_init(&ps, level, mode);
  ref_init(&g_ref, level, mode != 0);
  V_ASSERT(COUPLED(&ps, &g_ref), "parser_init: implementation state coupled to fresh reference");
  V_CANARY("parser_init reachable");
}

/* Lemma: the bit-reader macros implement a big-endian bit queue.  Loop free, all states. */
void h_bits_lemma(void)
{
  struct bitstream b;
  uint32_t mem[2];
  V_IN(unsigned, live);
  V_IN(uint64_t, buff);
  V_IN(unsigned, n);
  V_IN(unsigned, have);
  V_IN(unsigned, eof);
  V_IN(uint32_t, m0);
  V_ASSUME(live <= 63 && (buff << live) == 0 && (live != 0 || buff == 0));
  V_ASSUME(n >= 1 && n <= 32 && have <= 1);
  mem[0] = m0; mem[1] = 0;
  b.live = live; b.buff = buff; b.data = mem; b.limit = mem + have; b.eof = eof & 1; b.block = 0;
  struct bitstream *bs = &b;
  int r = bits_need(bs, n);
  uint32_t be = ((m0 & 0xFFu) << 24) | ((m0 & 0xFF00u) << 8) | ((m0 >> 8) & 0xFF00u) | (m0 >> 24);   /* big-endian value of the 4 bytes */
  if (n <= live) {
    V_ASSERT(r == OK && b.live == live && b.buff == buff && b.data == mem, "bits_need: enough bits buffered -> nothing changes");
  } else if (have == 0) {
    V_ASSERT(r == ((eof & 1) ? FINISH : MORE) && b.live == live && b.buff == buff && b.data == mem, "bits_need: no input -> FINISH at eof else MORE, nothing changes");
  } else {
    V_ASSERT(r == OK && b.live == live + 32 && b.data == mem + 1, "bits_need: one word loaded");
    V_ASSERT(b.buff == (buff | ((uint64_t)be << (32 - live))), "bits_need: the word is appended big-endian right below the buffered bits");
    V_CANARY("bits_need loads");
  }
  if (r == OK) {
    uint64_t pk = bits_peek(bs, n);
    V_ASSERT(pk == (b.buff >> (64 - n)), "bits_peek: top n bits");
    uint64_t before = b.buff; unsigned lb = b.live;
    bits_dump(bs, n);
    V_ASSERT(b.buff == (before << n) && b.live == lb - n, "bits_dump: removes exactly n bits");
    V_ASSERT(BS_OK(bs), "bit reader invariant preserved");
  }
}


/* ---- explicit bounded twin of the contract harness: concrete-input finder for replay,
   and an end-to-end cross-check of "words in memory -> verdicts" that does not go
   through the woven ghost statements.  The reference is driven here directly from
   the logical bit stream (buffered bits followed by big-endian memory words). */
#ifndef TWIN_WORDS
#define TWIN_WORDS 4
#endif
static unsigned t_bit(uint64_t buff, unsigned live, const uint32_t *mem, unsigned i)
{
  if (i < live) return (unsigned)(buff >> (63 - i)) & 1u;
  i -= live;
  uint32_t m = mem[i / 32];
  uint32_t be = ((m & 0xFFu) << 24) | ((m & 0xFF00u) << 8) | ((m >> 8) & 0xFF00u) | (m >> 24);
  return (be >> (31 - i % 32)) & 1u;
}

void h_parse_twin(void)
{
  V_IN_ARR(uint32_t, mem, TWIN_WORDS);
#ifdef TWIN_LIVE
  unsigned live = TWIN_LIVE;
#else
  V_IN(unsigned, live);
#endif
  V_IN(uint64_t, buff);
  unsigned nw = TWIN_WORDS;
  V_IN(int, level);
  V_IN(int, start);       /* 0: right after the first stream header (parser_init); 1: between streams */
  V_ASSUME(live <= 63 && (buff << live) == 0 && (live != 0 || buff == 0));
  V_ASSUME(nw <= TWIN_WORDS && level >= 1 && level <= 9 && (start == 0 || start == 1));
  struct parser_state ps; struct header hd; struct bitstream bs; unsigned garbage = 77;
  struct ref_parser ref;
  parser_init(&ps, level, 0);
  ref_init(&ref, level, 0);
  if (start == 1) { ps.state = STREAM_MAGIC_1; ref.phase = R_HDR; }
  bs.live = live; bs.buff = buff; bs.data = mem; bs.limit = mem + nw; bs.eof = 1; bs.block = 0;
  unsigned total = live + 32 * nw, pos = 0, calls;
  for (calls = 0; calls < 3; calls++) {
    int rv = parse(&ps, &hd, &bs, &garbage);
    /* reference run over the same bits until it produces a verdict or runs out */
    int verdict = V_CONT;
    while (pos + 16 <= total) {
      unsigned w = 0, k;
      for (k = 0; k < 16; k++) w = (w << 1) | t_bit(buff, live, mem, pos + k);
      pos += 16;
      ref_step(&ref, w);
      if (ref.align) pos += (total - pos) % 8;     /* byte boundary of the file = multiple of 8 from the end of the words */
      verdict = ref.verdict;
      if (verdict != V_CONT) break;
    }
    if (verdict == V_BLOCK) {
      V_ASSERT(rv == OK && hd.crc == ref.blk_crc && hd.bs100k == ref.level, "twin: block reported with the stored crc and level");
      continue;
    }
    if (verdict == V_ERR_HEADER) { V_ASSERT(rv == ERR_HEADER, "twin: bad magic rejected"); return; }
    if (verdict == V_ERR_STRMCRC) { V_ASSERT(rv == ERR_STRMCRC, "twin: stream crc mismatch rejected"); return; }
    if (verdict == V_FINISH) { V_ASSERT(rv == FINISH && garbage == ref.garbage, "twin: trailing garbage verdict"); V_CANARY("twin garbage"); return; }
    /* input exhausted at eof */
    if (ref.phase == R_HDR && ref.nwords == 0) { V_ASSERT(rv == FINISH && garbage == 0, "twin: clean end of input after a stream"); }
    else if (ref.phase == R_HDR && ref.nwords == 1) V_ASSERT(rv == FINISH && garbage == 16, "twin: lone BZ is garbage");
    else V_ASSERT(rv == ERR_EOF, "twin: end of input inside a stream is an error");
    return;
  }
}


/* O14.3  scan() against a naive matcher written from the property: the 48-bit pattern 0x314159265359 followed by 32 more bits.
   Input: SCAN_LIVE buffered bits + SCAN_WORDS words, every bit symbolic, symbolic skip distance. */
#ifndef SCAN_LIVE
#define SCAN_LIVE 5
#endif
#ifndef SCAN_WORDS
#define SCAN_WORDS 3
#endif
#define SCAN_TOTAL (SCAN_LIVE + 32 * SCAN_WORDS)
void h_scan(void)
{
  struct bitstream b; uint32_t mem[SCAN_WORDS + 1];
  V_IN(uint64_t, buff);
  V_IN_ARR(uint32_t, wd, SCAN_WORDS + 1);
  V_IN(unsigned, skip);
  unsigned i, j;
  unsigned char bit[SCAN_TOTAL + 1];
  V_ASSUME(SCAN_LIVE == 0 ? buff == 0 : (buff << SCAN_LIVE) == 0);
  V_ASSUME(skip <= SCAN_TOTAL + 40);
  for (i = 0; i < SCAN_WORDS; i++) mem[i] = htonl(wd[i]);
  for (i = 0; i < SCAN_LIVE; i++) bit[i] = (unsigned char)((buff >> (63 - i)) & 1u);
  for (i = 0; i < 32 * SCAN_WORDS; i++) bit[SCAN_LIVE + i] = (unsigned char)((wd[i / 32] >> (31 - i % 32)) & 1u);
  b.live = SCAN_LIVE; b.buff = buff; b.data = mem; b.limit = mem + SCAN_WORDS; b.eof = 0; b.block = 0;
  /* where the search starts: the current position, or -- when skip exceeds the buffered bits -- the word boundary the distance rounds up to */
  unsigned start = skip <= SCAN_LIVE ? 0 : SCAN_LIVE + 32 * ((skip - SCAN_LIVE + 31) / 32);
  if (start > SCAN_TOTAL) start = SCAN_TOTAL;
  /* naive matcher: first p >= start with bit[p .. p+48) == pattern */
  static const uint64_t PAT = 0x314159265359ull;
  int found = -1;
  for (i = 0; i + 48 <= SCAN_TOTAL; i++) {
    if (i < start || found >= 0) continue;
    int eq = 1;
    for (j = 0; j < 48; j++) if (bit[i + j] != (unsigned char)((PAT >> (47 - j)) & 1u)) eq = 0;
    if (eq) found = (int)i;
  }
  int rv = scan(&b, skip);
  unsigned left = b.live + 32u * (unsigned)(b.limit - b.data);
  V_ASSERT(rv == OK || rv == MORE, "scan returns OK or MORE");
  if (found >= 0 && (unsigned)found + 80 <= SCAN_TOTAL) {
    V_ASSERT(rv == OK, "scan finds the first occurrence of the header pattern that lies wholly at or after the start position and has 32 bits after it");
    V_ASSERT(rv != OK || SCAN_TOTAL - left == (unsigned)found + 80, "on OK the bit position is exactly the end of the pattern plus the 32 bits that follow it");
    V_CANARY("scan reports a candidate");
  } else {
    V_ASSERT(rv == MORE, "scan reports nothing where the pattern (with its 32 following bits) does not occur");
    V_ASSERT(rv != MORE || left == 0, "on MORE the whole block has been consumed");
    V_CANARY("scan reports nothing");
  }
  V_ASSERT(b.live <= 63 && (b.live == 0 ? b.buff == 0 : (b.buff << b.live) == 0), "bit buffer stays well formed");
}

#ifdef VERIF_REPLAY
int main(void) { HARNESS(); puts("REPLAY-PASS"); return 0; }
#endif
