/* Monitor-invariant harnesses over src/expand.c (DESIGN 1.4), same method as h_compress.c. */
#include "verif.h"
#include "src/expand.c"
#include "c12_undef.h"
/* C12: what "the guard holds" means in this monitor model */
int g_single;                                 /* single-threaded phase (init/uninit of a run: no other thread exists) */
extern int g_held, g_task;
int verif_lock_ok(int guard) { return g_single || g_held || (guard == C12_SCHED_OR_READER_READ && g_task == 6 /* T_INPUT: tail_offs read by its only writer */) ||
         (guard == C12_SCHED_OR_TOKEN && g_task == 1 /* T_PARSE: the parser automaton belongs to the token holder while parse() runs */); }


/* ---------------- objects of other translation units */
unsigned num_worker, bs100k; bool ultra, eof;
unsigned work_units, in_slots, out_slots, total_in_slots, total_out_slots;
size_t in_granul, out_granul;
struct filespec ispec;

/* ---------------- ghost */
int g_held;
unsigned g_my_units, g_my_slots;
unsigned g_oth_units, g_oth_slots, g_in_sink;
unsigned g_unlocks, g_locks;
int g_task;
enum { T_PARSE = 1, T_RETRIEVE, T_EMIT, T_REORDER, T_SCAN, T_INPUT, T_WRITTEN, T_ATTACH };
int g_sink_calls; void *g_sink_buf; size_t g_sink_size;
int g_failf_calls, g_failf_allowed;
int g_src_close_calls, g_src_release_calls;
void *g_enq_retr, *g_enq_emit, *g_enq_reord, *g_enq_unord, *g_enq_scan;
int g_parse_rv, g_scan_rv, g_retrieve_rv, g_emit_rv;
uint64_t g_ds_major, g_ds_minor;
uintmax_t g_dp_offset; unsigned g_dp_live; uint64_t g_dp_pos_major, g_dp_pos_minor;
struct in_blk *g_my_block;            /* input block this thread has attached (kept alive by its reference) */
unsigned g_oth_scans, g_my_scans;     /* scan tasks in flight */
enum { N_RETR = 1, N_EMIT = 2, N_REORD = 4, N_SCAN = 8, N_UNORD = 16, N_INPUT = 32 };
unsigned g_need;                      /* which queue heads / input blocks the code under test can look at */
unsigned g_my_intok;                  /* the reader holds the input slot of the buffer it is delivering */
int g_small_queues;                   /* harnesses whose code loops over queues bound the queue lengths to 2 */
struct unord_blk *g_my_link;
unsigned g_parse_garbage;
struct header g_parse_hd;
int g_stub_ad;                         /* attach()/detach() replaced by their contract (proved in expand.attach_detach) */
uintmax_t g_att_avail, g_att_remain;   /* ghost: unread words of the attached input block at attach() / now */
static uint32_t g_win[2];              /* stand-in for the attached block's words: only data == limit (nothing left) is observable to the tasks */
int g_became_master;                   /* the parser confirmed this job's candidate while it was outside the monitor */
int g_master;                          /* this retrieve job holds the parse token on behalf of the parser */
bool g_s_pt, g_s_pd; struct detached_bitstream g_s_pbs; struct parser_state g_s_par;
unsigned g_s_order, g_s_units;            /* snapshot taken when this thread last (re-)entered the monitor */

#define CAP_RETR  num_worker
#define CAP_EMIT  num_worker
#define CAP_REORD total_out_slots
#define CAP_SCAN  total_in_slots
#define CAP_INPUT total_in_slots
#define CAP_ORDER (num_worker + total_out_slots)
#define CAP_UNORD (num_worker + total_out_slots > UNORD_THRESH ? num_worker + total_out_slots - UNORD_THRESH : 0)

/* the monitor invariant (unit / slot conservation, occupancy, offsets) */
#define I_X ( \
  retr_q.size <= CAP_RETR && emit_q.size <= CAP_EMIT && reord_q.size <= CAP_REORD && scan_q.size <= CAP_SCAN && \
  unord_q.size <= CAP_UNORD && \
  input_q.size <= input_q.modulus && input_q.head < input_q.modulus && input_q.modulus == CAP_INPUT && \
  order_q.size <= order_q.modulus && order_q.head < order_q.modulus && order_q.modulus == CAP_ORDER && \
  (uintmax_t)work_units + retr_q.size + emit_q.size + g_oth_units + g_my_units == num_worker && \
  (uintmax_t)out_slots + reord_q.size + g_in_sink + g_oth_slots + g_my_slots == total_out_slots && \
  (uintmax_t)scan_q.size + g_oth_scans + g_my_scans + g_my_intok <= total_in_slots && (uintmax_t)input_q.size + g_my_intok <= total_in_slots && \
  (!parsing_done || (scan_q.size == 0 && retr_q.size == 0 && unord_q.size == 0 && input_q.size == 0 && head_offs == tail_offs)) && \
  head_offs <= tail_offs && tail_offs < ((uintmax_t)1 << 56) && eof_missing <= 3 )

/* representation invariant of queued output buffers (established by do_emit, asserted there) */
#define OBLK_OK(b) ((b)->status == OK || (b)->status == MORE || ((b)->status >= ERR_MAGIC && (b)->status <= ERR_EOF))
#define POS_EQ(a, b) ((a).major == (b).major && (a).minor == (b).minor)
#define POS_LT(a, b) ((a).major < (b).major || ((a).major == (b).major && (a).minor < (b).minor))

static void *fresh(size_t n) { void *p = malloc(n); __CPROVER_assume(p != 0); return p; }

static unsigned dq_index(unsigned head, unsigned i, unsigned mod) { unsigned a = head + i + 1; return a < mod ? a : a - mod; }

static void env_runs(void)
{
  uintmax_t tail_keep = tail_offs;
  /* RELY (token ownership): between parse_token = 0 and giving the token back, parse_token, parsing_done, parser_bs and par
     belong to the token holder -- the running parser, or the master retrieve job it created/confirmed.  The GUARANTEE side is
     asserted in EXIT_CHECKS of every task that does not hold the token ("parser-owned state untouched"). */
  int own_token = (g_task == T_PARSE && g_locks > 0) || (g_task == T_RETRIEVE && g_master);
  bool keep_pt = parse_token, keep_pd = parsing_done; struct detached_bitstream keep_pbs = parser_bs; struct parser_state keep_par = par;
  unsigned a, b, c, d, e, f, g, h, i, j, k, l, m; bool z, pt, pd; uintmax_t ho, to, ro; unsigned em;
  retr_q.size = a; emit_q.size = b; reord_q.size = c; scan_q.size = d; unord_q.size = e; input_q.size = f; input_q.head = g;
  order_q.size = h; order_q.head = i; work_units = j; out_slots = k; g_oth_units = l; g_oth_slots = m;
  { unsigned s; g_in_sink = s; }
  eof = z; parse_token = pt; parsing_done = pd; head_offs = ho; tail_offs = to; reord_offs = ro; eof_missing = em;
  { struct detached_bitstream p; parser_bs = p; __CPROVER_assume(p.live <= 63 && (!p.eof || p.live < 32)); }
  { struct parser_state ps; par = ps; }
  __CPROVER_assume(l <= num_worker && m <= total_out_slots && g_in_sink <= total_out_slots);
  if ((g_need & N_RETR) && retr_q.size > 0 && retr_q.size <= CAP_RETR) { struct retr_blk *r = fresh(sizeof *r); r->ds.internal_state = fresh(8); r->ds.tt = fresh(8); retr_q.root[0] = r; { int u; r->unord_link = u ? fresh(sizeof(struct unord_blk)) : 0; } }
  if ((g_need & N_EMIT) && emit_q.size > 0 && emit_q.size <= CAP_EMIT) { struct emit_blk *r = fresh(sizeof *r); r->ds.internal_state = 0; r->ds.tt = fresh(8); emit_q.root[0] = r; }
  if ((g_need & N_REORD) && reord_q.size > 0 && reord_q.size <= CAP_REORD) { struct out_blk *o = fresh(sizeof(struct out_blk) + 8); __CPROVER_assume(OBLK_OK(o)); reord_q.root[0] = o; }
  if ((g_need & N_SCAN) && scan_q.size > 0 && scan_q.size <= CAP_SCAN) { struct detached_bitstream *d = fresh(sizeof *d); __CPROVER_assume(d->live <= 63 && (!d->eof || d->live < 32)); scan_q.root[0] = d; }
  if ((g_need & N_UNORD) && unord_q.size > 0 && unord_q.size <= CAP_UNORD) unord_q.root[0] = fresh(sizeof(struct unord_blk));
  if (own_token) { parse_token = keep_pt; parsing_done = keep_pd; parser_bs = keep_pbs; par = keep_par; pt = keep_pt; pd = keep_pd; }
  if (g_task == T_INPUT && g_locks > 0) to = tail_keep, tail_offs = tail_keep;   /* tail_offs has a single writer: the reader thread running this callback */
  { unsigned os; __CPROVER_assume(os <= total_in_slots); g_oth_scans = os; }
  __CPROVER_assume(input_q.head < input_q.modulus && input_q.size <= input_q.modulus && order_q.head < order_q.modulus && order_q.size <= order_q.modulus);
  if (g_small_queues && (g_need & N_INPUT)) {
    /* bounded queue lengths; input_q is rebuilt as <= 2 contiguous blocks [head_offs, tail_offs) */
    __CPROVER_assume(retr_q.size <= 2 && scan_q.size <= 2 && unord_q.size <= 2 && input_q.size <= 2 && input_q.size <= CAP_INPUT);
    __CPROVER_assume(!parsing_done || input_q.size == 0);
    uintmax_t off = head_offs; unsigned i; int alias; __CPROVER_assume(alias >= -1 && alias <= 1);
    int aliased = 0;
    for (i = 0; i < 2; i++) if (i < input_q.size) {
      struct in_blk *b;
      if (g_my_block && alias == (int)i) { b = g_my_block; __CPROVER_assume(b->offset == off); unsigned rc; __CPROVER_assume(rc >= 2 && rc < 1000); b->ref_count = rc; aliased = 1; }
      else { b = fresh(sizeof *b); size_t n; __CPROVER_assume(n >= 1 && n <= ((size_t)1 << 20)); b->size = n; b->buffer = g_stub_ad ? fresh(4) : fresh(n * 4); b->offset = off; unsigned rc; __CPROVER_assume(rc >= 1 && rc < 1000); b->ref_count = rc; }
      input_q.root[dq_index(input_q.head, i, input_q.modulus)] = b;
      off += b->size;
    }
    __CPROVER_assume(tail_offs == off);
    if (g_my_block && !aliased) { unsigned rc; __CPROVER_assume(rc >= 1 && rc < 1000); g_my_block->ref_count = rc; __CPROVER_assume(g_my_block->offset + g_my_block->size <= head_offs); }
  }
  if (g_my_link && g_locks == 1) {      /* only while the job still reads its link: the first re-entry (detach) */
    /* the parser may have classified this job's candidate meanwhile; a confirmed candidate makes this job the master */
    bool c, l; g_my_link->complete = c; g_my_link->legitimate = l;
    __CPROVER_assume(!(c && l) || !parse_token);
    g_became_master = c && l;
  }
  /* nobody keeps a position inside an input block that has already been released (advance() drops such jobs) */
  __CPROVER_assume(parsing_done || parser_bs.offset >= head_offs);
  if ((g_need & N_RETR) && retr_q.size > 0 && retr_q.size <= CAP_RETR) { struct retr_blk *r = retr_q.root[0]; __CPROVER_assume(r->curr_pos.offset >= head_offs && r->curr_pos.live <= 63 && (!r->curr_pos.eof || r->curr_pos.live < 32)); }
  if ((g_need & N_SCAN) && scan_q.size > 0 && scan_q.size <= CAP_SCAN) __CPROVER_assume(((struct detached_bitstream *)scan_q.root[0])->offset >= head_offs);
  __CPROVER_assume(I_X);
  /* ASSUMED (undecided residue, DESIGN C11 O11.2): while the parser holds its reserved unit the order queue has room for the
     block it may accept -- the code's own assert(size < modulus) in push() states the claim; the inductive unit/slot
     representation argument behind it is not mechanised */
  if (g_task == T_PARSE) __CPROVER_assume(order_q.size < order_q.modulus);
  if (g_task == T_SCAN) __CPROVER_assume(unord_q.size < CAP_UNORD);     /* ASSUMED likewise for the candidate queue (speculative blocks never hold the reserved unit / slots) */
  g_s_order = order_q.size; g_s_units = work_units;
  g_s_pt = parse_token; g_s_pd = parsing_done; g_s_pbs = parser_bs; g_s_par = par;
}

static void spec_at_unlock(void)
{
  switch (g_task) {
  case T_PARSE:    g_my_units = 1; break;            /* attach() leaves the monitor: the parser holds the unit it reserved */
  case T_SCAN:     g_my_units = 1; g_my_scans = 1; break;            /* the scanner holds its unit while scanning */
  case T_RETRIEVE: g_my_units = 1; break;            /* the dequeued retrieve job carries one unit (attach and the decode phase) */
  case T_EMIT:     g_my_units = 1; g_my_slots = 1; break;   /* emit job's unit plus the reserved output slot */
  default:         g_my_units = 0; g_my_slots = 0; g_my_intok = 0; break;
  }
}

/* GUARANTEE side of the token-ownership rely: a task that does not hold the parse token leaves the parser-owned state alone */
#define TOKEN_HOLDER() (g_task == T_PARSE || g_task == T_ATTACH || g_task == 0 || (g_task == T_RETRIEVE && (g_master || g_became_master)))
#define PARSER_STATE_UNTOUCHED() __CPROVER_assert(TOKEN_HOLDER() || (parse_token == g_s_pt && parsing_done == g_s_pd && parser_bs.offset == g_s_pbs.offset && parser_bs.live == g_s_pbs.live && \
    parser_bs.buff == g_s_pbs.buff && parser_bs.eof == g_s_pbs.eof && POS_EQ(parser_bs.pos, g_s_pbs.pos) && par.state == g_s_par.state && par.bs100k == g_s_par.bs100k && \
    par.stored_crc == g_s_par.stored_crc && par.computed_crc == g_s_par.computed_crc && par.stream_mode == g_s_par.stream_mode), \
    "parser-owned state (parse token, parsing_done, parser position, parser automaton) is modified only by the token holder")

void sched_lock(void)
{
  __CPROVER_assert(!g_held, "sched_lock: not already inside the monitor");
  g_locks++; env_runs(); g_held = 1;
}
void sched_unlock(void)
{
  __CPROVER_assert(g_held, "sched_unlock: inside the monitor");
  g_unlocks++; spec_at_unlock();
  __CPROVER_assert(I_X, "monitor invariant I_x holds when the task leaves the monitor");
  PARSER_STATE_UNTOUCHED();
  g_held = 0;
}

void up_heap(void *vroot, unsigned size)
{
  void **root = vroot;
  __CPROVER_assert(g_held, "queues are modified only inside the monitor");
  unsigned cap = vroot == (void *)retr_q.root ? CAP_RETR : vroot == (void *)emit_q.root ? CAP_EMIT : vroot == (void *)reord_q.root ? CAP_REORD :
                 vroot == (void *)scan_q.root ? CAP_SCAN : CAP_UNORD;
  __CPROVER_assert(vroot == (void *)retr_q.root || vroot == (void *)emit_q.root || vroot == (void *)reord_q.root || vroot == (void *)scan_q.root || vroot == (void *)unord_q.root, "known queue");
  /* unord_q occupancy: inductive invariant not found -> not asserted (undecided residue, see DESIGN) */
  if (vroot != (void *)unord_q.root) __CPROVER_assert(size < cap, "enqueue: queue holds fewer items than its fixed capacity");
  __CPROVER_assert(root[size] != 0, "enqueue: element is a block");
  if (vroot == (void *)retr_q.root) g_enq_retr = root[size]; else if (vroot == (void *)emit_q.root) g_enq_emit = root[size];
  else if (vroot == (void *)reord_q.root) g_enq_reord = root[size]; else if (vroot == (void *)scan_q.root) g_enq_scan = root[size]; else g_enq_unord = root[size];
  if (size > 0) { int sw; if (sw) { void *t = root[0]; root[0] = root[size]; root[size] = t; } }
}
void down_heap(void *vroot, unsigned size)
{
  void **root = vroot;
  __CPROVER_assert(g_held, "queues are modified only inside the monitor");
  __CPROVER_assert(size != (unsigned)-1, "dequeue: queue was not empty");
  void *head = root[0];
  if (size > 0) {
    if (vroot == (void *)retr_q.root) { struct retr_blk *r = fresh(sizeof *r); r->ds.internal_state = fresh(8); r->ds.tt = fresh(8); r->unord_link = 0; root[0] = r; }
    else if (vroot == (void *)emit_q.root) { struct emit_blk *r = fresh(sizeof *r); r->ds.internal_state = 0; r->ds.tt = fresh(8); root[0] = r; }
    else if (vroot == (void *)reord_q.root) { struct out_blk *o = fresh(sizeof(struct out_blk) + 8); __CPROVER_assume(OBLK_OK(o)); root[0] = o; }
    else if (vroot == (void *)scan_q.root) root[0] = fresh(sizeof(struct detached_bitstream));
    else root[0] = fresh(sizeof(struct unord_blk));
  }
  root[size] = head;
}

void source_release_buffer(void *b);

/* ---- contract of attach()/detach() used in place of their bodies when g_stub_ad is set (weave: expand.c.spec).
   Every clause below is an assertion of h_attach_detach on the REAL bodies. */
static struct position enc_pos(uintmax_t P)
{
  /* canonical position of absolute bit P: major = word / G, minor = (word % G) << 32 | (bit << 27), G = in_granul / 4 (a power of two) */
  struct position p; uintmax_t w = P / 32;
  if (in_granul == 262144u) { p.major = w >> 16; p.minor = ((w & 65535u) << 32) + ((P % 32) << 27); }
  else { p.major = w >> 13; p.minor = ((w & 8191u) << 32) + ((P % 32) << 27); }
  return p;
}
static struct bitstream verif_attach(struct detached_bitstream dbs)
{
  struct bitstream bs;
  __CPROVER_assert(g_held, "attach(): called inside the monitor");
  __CPROVER_assert(dbs.offset >= head_offs && dbs.offset <= tail_offs && (dbs.offset < tail_offs || eof), "attach(): the position lies in the buffered input (or at its end after end of file)");
  bs.live = dbs.live; bs.buff = dbs.buff; bs.eof = dbs.eof;
  if (dbs.offset == tail_offs) { bs.block = 0; bs.data = 0; bs.limit = 0; bs.eof = (bs.live < 32u); g_att_avail = 0; }
  else {
    struct in_blk *b = 0; unsigned i;
    for (i = 0; i < 2; i++) if (i < input_q.size) { struct in_blk *c = input_q.root[dq_index(input_q.head, i, input_q.modulus)]; if (dbs.offset >= c->offset && dbs.offset - c->offset < c->size) b = c; }
    __CPROVER_assume(b != 0);                  /* input_q covers [head_offs, tail_offs) contiguously (established by env_runs for the bounded queue) */
    b->ref_count++; bs.block = b; bs.data = &g_win[0]; bs.limit = &g_win[1];
    g_att_avail = b->offset + b->size - dbs.offset;
  }
  g_att_remain = g_att_avail;
  sched_unlock();
  return bs;
}
static struct detached_bitstream verif_detach(struct bitstream bs)
{
  struct detached_bitstream dbs; struct in_blk *blk = bs.block; uintmax_t offset;
  sched_lock();
  offset = blk != 0 ? blk->offset + blk->size - g_att_remain : tail_offs;
  if (offset > tail_offs) offset = tail_offs;
  dbs.live = bs.live; dbs.buff = bs.buff; dbs.eof = bs.eof; dbs.offset = offset;
  dbs.pos = enc_pos(32 * offset - bs.live);
  if (blk && --blk->ref_count == 0) { source_release_buffer(blk->buffer); free(blk); }
  g_my_block = 0;                              /* this thread's reference is gone */
  return dbs;
}
/* the codec stubs consume words of the attached block through the ghost counter */
static void consume_words(struct bitstream *bs, int all)
{
  if (g_stub_ad) {
    uintmax_t c; __CPROVER_assume(c <= g_att_remain); if (all) c = g_att_remain;
    g_att_remain -= c;
    if (bs->data != 0 && g_att_remain == 0) bs->data = bs->limit;
  } else if (bs->data != 0) {
    size_t adv; __CPROVER_assume(adv <= (size_t)(bs->limit - bs->data)); bs->data += adv;
    if (all) bs->data = bs->limit;
  }
}

/* ---- callees outside expand.c (ASSUMED contracts) */
void *xmalloc(size_t n) { return fresh(n); }
static int parse_fail_allowed(void);
void failf(const struct filespec *f, const char *fmt, ...)
{
  g_failf_calls++;
  __CPROVER_assert(f == &ispec, "errors are reported against the input file");
  if (g_task == T_PARSE) g_failf_allowed = parse_fail_allowed();
  __CPROVER_assert(g_failf_allowed, "failf() is reached only for an error the specification allows at this point");
  __CPROVER_assert(g_sink_calls == 0, "nothing of the failing block is handed to the writer before the error is raised");
  __CPROVER_assert(0, "CANARY failf reached");
  __CPROVER_assume(0);
}
void source_close(void) { g_src_close_calls++; }
void source_release_buffer(void *b) { g_src_release_calls++; }
void sink_write_buffer(void *b, size_t size, size_t weight) { g_sink_calls++; g_sink_buf = b; g_sink_size = size; g_in_sink++; }
void decoder_init(struct decoder_state *ds) { ds->internal_state = fresh(8); ds->tt = fresh(8); ds->block_size = 0; }
void decoder_free(struct decoder_state *ds) { free(ds->tt); free(ds->internal_state); }
void decode(struct decoder_state *ds) { __CPROVER_assert(!g_held, "decode() runs outside the monitor"); }
void parser_init(struct parser_state *ps, int lvl, int mode) { ps->state = 2; ps->bs100k = lvl; ps->computed_crc = 0; ps->stream_mode = mode; }
int parse(struct parser_state *ps, struct header *hd, struct bitstream *bs, unsigned *garbage)
{
  __CPROVER_assert(!g_held, "parse() runs outside the monitor");
  g_my_block = bs->block;
  int rv; __CPROVER_assume(rv == OK || rv == MORE || rv == FINISH || rv == ERR_HEADER || rv == ERR_STRMCRC || rv == ERR_EOF);
#ifdef DP_RV     /* the do_parse obligation is split by parse() verdict into one instance per value of its return set */
  rv = DP_RV;
#endif
  struct header h; *hd = h; g_parse_hd = h;
  if (rv == FINISH) { unsigned g; __CPROVER_assume(g == 0 || g == 16 || g == 32); *garbage = g; g_parse_garbage = g; }
  /* consumes bits: the reader moves forward inside its block */
  consume_words(bs, rv == MORE || rv == FINISH || rv == ERR_EOF);
  { unsigned lv; __CPROVER_assume(lv <= 63); bs->live = lv; }
  if (rv == MORE || rv == FINISH || rv == ERR_EOF) __CPROVER_assume(bs->live < 16);   /* parse contract E5 */
  g_parse_rv = rv;
  return rv;
}
int scan(struct bitstream *bs, unsigned skip)
{
  __CPROVER_assert(!g_held, "scan() runs outside the monitor");
  g_my_block = bs->block;
  int rv; __CPROVER_assume(rv == OK || rv == MORE);
  consume_words(bs, rv == MORE);
  { unsigned lv; __CPROVER_assume(lv <= 63); bs->live = lv; }
  if (rv == MORE) bs->live = 0;
  g_scan_rv = rv;
  return rv;
}
int retrieve(struct decoder_state *ds, struct bitstream *bs)
{
  __CPROVER_assert(!g_held, "retrieve() runs outside the monitor");
  g_my_block = bs->block;
  int rv; __CPROVER_assume(rv == OK || rv == MORE || (rv >= ERR_BITMAP && rv <= ERR_EOF));
  consume_words(bs, rv == MORE);
  { unsigned lv; __CPROVER_assume(lv <= 63); bs->live = lv; }
  if (rv == OK) { free(ds->internal_state); ds->internal_state = 0; }
  g_retrieve_rv = rv;
  return rv;
}
size_t g_emit_buf_sz; uint32_t g_emit_crc;
int emit(struct decoder_state *ds, void *buf, size_t *sz)
{
  __CPROVER_assert(!g_held, "emit() runs outside the monitor");
  int rv; __CPROVER_assume(rv == OK || rv == MORE || rv == ERR_RUNLEN);
  g_emit_buf_sz = *sz;
  if (rv == MORE) *sz = 0; else { size_t r; __CPROVER_assume(r <= *sz); *sz = r; }
  { uint32_t c; ds->crc = c; g_emit_crc = c; }
  g_emit_rv = rv;
  return rv;
}

static void setup3(int task, unsigned mu, unsigned ms)
{
  unsigned nw; int sm;
  __CPROVER_assume(nw >= 1 && nw <= 100000); num_worker = nw;
  if (sm) { total_in_slots = 2u; total_out_slots = 2u * nw; in_granul = 32768u; out_granul = 900000u; }
  else { total_in_slots = 4u * nw; total_out_slots = 16u * nw; in_granul = 262144u; out_granul = 900000u; }     /* set_memory_constraints(), proved in process.work */
  { unsigned l; __CPROVER_assume(l >= 1 && l <= 9); bs100k = l; }
  { bool u; ultra = u; }
  retr_q.root = fresh((size_t)CAP_RETR * sizeof(void *)); emit_q.root = fresh((size_t)CAP_EMIT * sizeof(void *));
  reord_q.root = fresh((size_t)CAP_REORD * sizeof(void *)); scan_q.root = fresh((size_t)CAP_SCAN * sizeof(void *));
  unord_q.root = fresh(((size_t)CAP_UNORD + 1) * sizeof(void *));
  input_q.root = fresh((size_t)CAP_INPUT * sizeof(void *)); order_q.root = fresh((size_t)CAP_ORDER * sizeof(struct head_blk));
  input_q.modulus = CAP_INPUT; order_q.modulus = CAP_ORDER;          /* init(), checked in expand.init */
  g_task = task; g_my_units = mu; g_my_slots = ms; g_my_scans = 0; g_unlocks = g_locks = 0;
  g_need = task == T_PARSE ? (N_RETR | N_SCAN | N_UNORD | N_INPUT) : task == T_RETRIEVE ? (N_RETR | N_SCAN | N_INPUT) : task == T_SCAN ? (N_SCAN | N_INPUT) :
           task == T_EMIT ? N_EMIT : task == T_REORDER ? N_REORD : task == T_ATTACH ? N_INPUT : task == T_INPUT ? 0 : (N_RETR | N_EMIT | N_REORD | N_SCAN | N_UNORD);
  g_my_intok = (task == T_INPUT);
  g_stub_ad = (task == T_PARSE || task == T_SCAN || task == T_RETRIEVE);
  g_small_queues = (task == T_PARSE || task == T_SCAN || task == T_RETRIEVE || task == T_INPUT || task == T_ATTACH);
  env_runs();
  g_held = 1;
}
static void setup(int task) { setup3(task, 0, 0); }
#define EXIT_CHECKS() do { \
    V_ASSERT(g_held, "task returns inside the monitor (lock balance)"); \
    g_my_units = 0; g_my_slots = 0; g_my_scans = 0; g_my_intok = 0; \
    V_ASSERT(I_X, "monitor invariant I_x holds at task exit with nothing held privately (every unit/slot taken was returned or handed to a queue)"); \
    PARSER_STATE_UNTOUCHED(); \
  } while (0)

/* ================= do_reorder: O5.3, O10.2, O15.2, O9.3 ================= */
void h_do_reorder(void)
{
  setup(T_REORDER);
  V_ASSUME(can_reorder());
  struct out_blk *ob = peek(reord_q);
  struct out_blk old = *ob;
  int have = !empty(order_q);
  unsigned hi = dq_index(order_q.head, 0, order_q.modulus);
  struct head_blk oh; if (have) oh = order_q.root[hi];
  unsigned osz = order_q.size, slots0 = out_slots;
  int bogus = !have || POS_LT(old.base, oh.base);
  int at_expected = have && POS_EQ(old.base, oh.base);
  int overflow = have && old.blk_sz > (uint32_t)oh.hdr.bs100k * 100000u;
  int st = overflow ? ERR_OVERFLOW : old.status;
  int crc_bad = (st == OK && old.crc != oh.hdr.crc);
  V_ASSUME(!have || (oh.hdr.bs100k >= 1 && oh.hdr.bs100k <= 9 && oh.base.minor < (1ull << 62)));     /* parse() contract: hd->bs100k is a header digit */
  g_failf_allowed = at_expected && (st != OK && st != MORE || crc_bad);
  do_reorder();
  EXIT_CHECKS();
  V_ASSERT(bogus || at_expected, "can_reorder(): the head of reord_q is never beyond the expected position");
  if (bogus) {
    V_ASSERT(g_sink_calls == 0 && out_slots == slots0 + 1 && order_q.size == osz, "a buffer whose base was never confirmed by the parser is discarded: not written, slot returned, order queue untouched");
    V_CANARY("bogus discarded");
  } else {
    V_ASSERT(g_sink_calls == 1 && g_sink_buf == (void *)(ob + 1) && g_sink_size == old.size, "the buffer at the expected position is handed to the writer, whole");
    V_ASSERT(old.blk_sz <= (uint32_t)oh.hdr.bs100k * 100000u, "written only if the block fits the size declared by its stream header");
    V_ASSERT(old.status == MORE || (old.status == OK && old.crc == oh.hdr.crc), "a final buffer is written only if decoding succeeded and the computed CRC equals the stored block CRC");
    if (old.status == MORE) {
      unsigned ni = dq_index(order_q.head, 0, order_q.modulus);
      V_ASSERT(order_q.size == osz && order_q.root[ni].base.major == oh.base.major && order_q.root[ni].base.minor == oh.base.minor + 1 && order_q.root[ni].hdr.crc == oh.hdr.crc && order_q.root[ni].hdr.bs100k == oh.hdr.bs100k,
               "multi-buffer block: the expected position moves to (major, minor+1) with the same stored header");
      V_CANARY("intermediate buffer written");
    } else {
      V_ASSERT(order_q.size == osz - 1, "final buffer: the block's order entry is consumed");
      V_CANARY("final buffer written");
    }
  }
}

/* ================= do_emit: O9.3, O15.2, O11.2 ================= */
void h_do_emit(void)
{
  setup(T_EMIT);
  V_ASSUME(can_emit());
  struct emit_blk *eb = peek(emit_q);
  struct emit_blk old = *eb;
  V_ASSUME(old.status == OK || (old.status >= ERR_BITMAP && old.status <= ERR_EOF));     /* retrieve()'s return set minus MORE (do_retrieve) */
  V_ASSUME(old.base.minor < (1ull << 62));
  do_emit();
  EXIT_CHECKS();
  struct out_blk *ob = g_enq_reord;
  V_ASSERT(ob != 0 && OBLK_OK(ob), "do_emit: the queued output buffer satisfies its representation invariant");
  V_ASSERT(POS_EQ(ob->base, old.base) && ob->blk_sz == old.ds.block_size, "do_emit: the buffer carries the block's base position and decoded block size");
  int rv = old.status == OK ? g_emit_rv : old.status;
  V_ASSERT(ob->status == rv, "do_emit: status is the retrieve error, else emit()'s result");
  V_ASSERT(old.status != OK || g_emit_buf_sz == out_granul, "do_emit: emit() gets a whole output buffer");
  if (rv == MORE) {
    V_ASSERT(g_enq_emit == eb && eb->base.major == old.base.major && eb->base.minor == old.base.minor + 1, "do_emit: block continues -> job re-queued at (major, minor+1)");
    V_ASSERT(ob->size == out_granul, "do_emit: an intermediate buffer is full");
    V_CANARY("emit continues");
  } else {
    V_ASSERT(ob->end_offset == old.end_offset, "do_emit: final buffer records the block's end offset");
    V_ASSERT(rv != OK || ob->crc == g_emit_crc, "do_emit: final buffer carries the CRC computed by emit()");
    V_CANARY("emit finishes");
  }
}

/* ================= callbacks ================= */
void h_on_write_complete(void)
{
  setup3(T_WRITTEN, 0, 1);
  g_held = 0;
  struct out_blk *ob = fresh(sizeof(struct out_blk) + 8);
  on_write_complete(ob + 1);
  V_ASSERT(!g_held, "on_write_complete: returns outside the monitor");
  V_CANARY("on_write_complete");
}

/* ================= init(): O18.1 ================= */
void h_init(void)
{
  unsigned nw; int sm; V_ASSUME(nw >= 1 && nw <= 100000); num_worker = nw;
  if (sm) { total_in_slots = 2u; total_out_slots = 2u * nw; in_granul = 32768u; } else { total_in_slots = 4u * nw; total_out_slots = 16u * nw; in_granul = 262144u; }
  in_slots = total_in_slots; out_slots = total_out_slots; work_units = num_worker;       /* primary_thread() prologue */
  { unsigned l; V_ASSUME(l >= 1 && l <= 9); bs100k = l; }
  { uintmax_t a, b, c; head_offs = a; tail_offs = b; reord_offs = c; unsigned e; eof_missing = e; bool p, q; parsing_done = p; parse_token = q; struct detached_bitstream d; parser_bs = d; }
  g_single = 1;                          /* init() runs in primary_thread() before any other thread of the run exists (process.primary_prologue) */
  init();
  V_ASSERT(head_offs == 0 && tail_offs == 0 && eof_missing == 0 && !parsing_done && parse_token && reord_offs == 0, "init(): offsets zero, parser idle, whatever the previous operand left");
  V_ASSERT(parser_bs.offset == 0 && parser_bs.live == 0 && parser_bs.buff == 0 && !parser_bs.eof && parser_bs.pos.major == 0 && parser_bs.pos.minor == 0, "init(): parser starts at bit 0 of the data after the stream header");
  V_ASSERT(par.bs100k == (int)bs100k && par.stream_mode == 0, "init(): parser knows the level of the first stream header, multi-stream mode");
  V_ASSERT(retr_q.size == 0 && emit_q.size == 0 && reord_q.size == 0 && scan_q.size == 0 && unord_q.size == 0 && input_q.size == 0 && order_q.size == 0, "init(): all queues empty");
  V_ASSERT(input_q.modulus == CAP_INPUT && order_q.modulus == CAP_ORDER, "init(): deque capacities");
  V_ASSERT(__CPROVER_OBJECT_SIZE(retr_q.root) == (size_t)CAP_RETR * sizeof(void *) && __CPROVER_OBJECT_SIZE(emit_q.root) == (size_t)CAP_EMIT * sizeof(void *) &&
           __CPROVER_OBJECT_SIZE(reord_q.root) == (size_t)CAP_REORD * sizeof(void *) && __CPROVER_OBJECT_SIZE(scan_q.root) == (size_t)CAP_SCAN * sizeof(void *) &&
           __CPROVER_OBJECT_SIZE(unord_q.root) == (size_t)CAP_UNORD * sizeof(void *) && __CPROVER_OBJECT_SIZE(order_q.root) == (size_t)CAP_ORDER * sizeof(struct head_blk) &&
           __CPROVER_OBJECT_SIZE(input_q.root) == (size_t)CAP_INPUT * sizeof(void *), "init(): queue capacities are the totals the invariant relies on");
  V_CANARY("init");
}

/* ================= guards: O11.2 (safety direction + documented reservation / discard rules) ================= */
void h_guards(void)
{
  setup(0);
  if (can_reorder()) {
    V_ASSERT(!empty(reord_q), "can_reorder only with a queued buffer");
    V_ASSERT(empty(order_q) ? parsing_done : !POS_LT(dq_get(order_q, 0).base, peek(reord_q)->base), "can_reorder never for a buffer beyond the expected position");
  }
  /* every buffer that can never be matched must be discardable, otherwise its slot is never given back */
  if (!empty(reord_q) && !empty(order_q) && POS_LT(peek(reord_q)->base, dq_get(order_q, 0).base)) V_ASSERT(can_reorder(), "a buffer before the expected position (spurious candidate) is always ready to be discarded");
  if (!empty(reord_q) && !empty(order_q) && POS_EQ(peek(reord_q)->base, dq_get(order_q, 0).base)) V_ASSERT(can_reorder(), "the buffer at the expected position is always ready to be written");
  if (!empty(reord_q) && empty(order_q) && parsing_done) V_ASSERT(can_reorder(), "after parsing finished every leftover buffer is ready to be discarded");
  if (can_emit()) V_ASSERT(!empty(emit_q) && out_slots > 0, "can_emit only with a job and a free output slot");
  if (!empty(emit_q) && out_slots > 0 && !empty(order_q) && POS_EQ(peek(emit_q)->base, dq_get(order_q, 0).base)) V_ASSERT(can_emit(), "reservation rule: the block expected next can always take the last output slots");
  if (!empty(emit_q) && out_slots > EMIT_THRESH) V_ASSERT(can_emit(), "any job can emit while more than the reserved slots are free");
  if (can_parse()) V_ASSERT(!parsing_done && parse_token && work_units > 0, "can_parse only with the parse token and a free unit");
  if (can_scan()) V_ASSERT(work_units > 0 && !ultra && !empty(scan_q) && (work_units > SCAN_THRESH || !parse_token), "can_scan keeps one unit in reserve for the parser unless the parser is running");
  if (can_retrieve()) V_ASSERT(!empty(retr_q), "can_retrieve only with a job");
  V_CANARY("guards");
}

/* ================= terminal predicate: O18.2 ================= */
void h_terminal(void)
{
  setup(0);
  V_ASSUME(g_oth_units == 0 && g_oth_slots == 0);
  if (can_terminate()) {
    V_ASSERT(parsing_done && parse_token && empty(retr_q) && empty(emit_q) && empty(reord_q) && g_in_sink == 0, "I_x and can_terminate(): no job and no buffer is pending (terminal state T_x)");
    V_CANARY("terminal");
  }
}

/* ================= do_parse: O5.2, O10.1, O7.1 ================= */
/* the stream ended (before the garbage bits) beyond the real end of the file, i.e. inside the zero padding */
#define END_BITPOS   ((__int128)32 * g_dp_offset - g_dp_live - g_parse_garbage)
#define FILE_BITS    ((__int128)32 * tail_offs - 8 * (__int128)eof_missing)
static int parse_fail_allowed(void)
{
  if (g_parse_rv != OK && g_parse_rv != MORE && g_parse_rv != FINISH) return 1;          /* structural error found by parse() */
  if (g_parse_rv == FINISH && END_BITPOS > FILE_BITS) return 1;                          /* end of file inside the padding */
  return 0;
}

void h_do_parse(void)
{
  setup(T_PARSE);
  V_ASSUME(can_parse());
  do_parse();
  unsigned osz = g_s_order;                           /* order queue as found when the parser re-entered the monitor (detach()) */
  EXIT_CHECKS();
  int rv = g_parse_rv;
  V_ASSERT(rv == OK || rv == MORE || rv == FINISH, "do_parse returns only for OK/MORE/FINISH: every parse error reaches failf");
  if (rv == MORE) {
    V_ASSERT(parse_token && !parsing_done && order_q.size == osz && g_enq_retr == 0, "MORE: token given back, nothing created");
#if !defined(DP_RV) || DP_RV_MORE
    V_CANARY("parse MORE");
#endif
  } else if (rv == FINISH) {
    V_ASSERT(!(END_BITPOS > FILE_BITS), "FINISH is accepted only if the last stream ends inside the real file (not in the zero padding)");
    V_ASSERT(parse_token && parsing_done && g_src_close_calls == 1, "FINISH: parsing done, reader told to stop");
    V_ASSERT(empty(input_q) && empty(retr_q) && empty(scan_q) && empty(unord_q) && head_offs == tail_offs && order_q.size == osz, "FINISH: all speculative work and input released, order queue untouched");
#if !defined(DP_RV) || DP_RV_FINISH
    V_CANARY("parse FINISH");
#endif
  } else {
    unsigned li = dq_index(order_q.head, order_q.size - 1, order_q.modulus);
    V_ASSERT(order_q.size == osz + 1, "OK: exactly one order entry is appended");
    V_ASSERT(order_q.root[li].base.major == g_dp_pos_major && order_q.root[li].base.minor == g_dp_pos_minor, "OK: the order entry's base is the bit position at which the parser accepted the header");
    V_ASSERT(order_q.root[li].hdr.crc == g_parse_hd.crc && order_q.root[li].hdr.bs100k == g_parse_hd.bs100k, "OK: the stored header (CRC, level) is queued unchanged");
    if (g_enq_retr) {
      struct retr_blk *rb = g_enq_retr;
      V_ASSERT(rb->unord_link == 0 && rb->base.major == g_dp_pos_major && rb->base.minor == g_dp_pos_minor && !parse_token, "OK, no candidate at this position: a fresh retrieve job starts at the parser position and becomes the master");
#if !defined(DP_RV) || DP_RV_OK
      V_CANARY("parse creates job");
#endif
    } else {
#if !defined(DP_RV) || DP_RV_OK
      V_CANARY("parse adopts candidate");
#endif
    }
  }
}

/* ================= do_scan: O10.3 ================= */
void h_do_scan(void)
{
  setup(T_SCAN);
  V_ASSUME(can_scan());
  struct detached_bitstream *bs = peek(scan_q);
  V_ASSUME(bs->pos.major >= parser_bs.pos.major && bs->live <= 63);                   /* check_invariants(): scan tasks are not behind the parser's input block */
  unsigned uq0 = unord_q.size;
  do_scan();
  EXIT_CHECKS();
  if (g_scan_rv != OK || parsing_done) {
    V_ASSERT(g_enq_unord == 0 && g_enq_retr == 0 && g_enq_scan == 0, "no match, or parsing already finished: nothing is created (a pattern found after end of stream is ignored)");
    V_CANARY("scan finds nothing / too late");
  } else if (!(parser_bs.pos.major < g_ds_major || (parser_bs.pos.major == g_ds_major && parser_bs.pos.minor < g_ds_minor))) {
    V_ASSERT(g_enq_unord == 0 && g_enq_retr == 0, "a candidate at or before the parser position creates nothing");
    V_CANARY("scan finds known position");
  } else {
    struct unord_blk *ub = g_enq_unord; struct retr_blk *rb = g_enq_retr;
    V_ASSERT(ub != 0 && rb != 0 && rb->unord_link == ub && ub->base.major == g_ds_major && ub->base.minor == g_ds_minor && rb->base.major == g_ds_major && rb->base.minor == g_ds_minor && !ub->complete, "a new candidate creates one unord entry and one retrieve job with the same base, linked");
    V_CANARY("scan creates candidate");
  }
}

/* ================= do_retrieve: O10.3 ================= */
void h_do_retrieve(void)
{
  setup(T_RETRIEVE);
  V_ASSUME(can_retrieve() && !parsing_done);
  struct retr_blk *rb = peek(retr_q);
  struct retr_blk old = *rb;
  g_my_link = old.unord_link;
  V_ASSUME(old.unord_link != 0 || !parse_token);       /* a parser-created job is the master: the parser waits for it (established in do_parse) */
  V_ASSUME(old.unord_link == 0 || !(old.unord_link->complete && old.unord_link->legitimate) || !parse_token);   /* so is a candidate the parser confirmed */
  g_master = old.unord_link == 0 || (old.unord_link->complete && old.unord_link->legitimate);
  do_retrieve();
  EXIT_CHECKS();
  if (g_enq_emit) {
    struct emit_blk *eb = g_enq_emit;
    V_ASSERT(POS_EQ(eb->base, old.base) && eb->status == g_retrieve_rv && g_retrieve_rv != MORE, "finished retrieval: the emit job keeps the job's base and carries retrieve()'s status");
    V_CANARY("retrieve finishes");
  }
  if (g_enq_retr) { V_ASSERT(g_enq_retr == rb && g_retrieve_rv == MORE && g_enq_emit == 0, "suspended retrieval is re-queued, nothing else"); V_CANARY("retrieve suspends"); }
  if (!g_enq_emit && !g_enq_retr) V_CANARY("retrieve abandoned");
}

/* ================= on_input_avail: O5.2 ================= */
void h_on_input_avail(void)
{
  setup(T_INPUT);
  g_held = 0;
  size_t sz; V_ASSUME(sz >= 1 && sz <= in_granul);
  uint8_t *buf = fresh(in_granul);
  uintmax_t t0 = tail_offs;                             /* single writer of tail_offs: the reader thread itself */
  V_ASSUME(t0 < ((uintmax_t)1 << 55));                  /* stated size bound: compressed input shorter than 2^57 bytes (I_x carries tail_offs < 2^56) */
  on_input_avail(buf, sz);
  V_ASSERT(!g_held, "on_input_avail: returns outside the monitor");
  if (g_enq_scan) {
    V_ASSERT(eof_missing == (unsigned)((4 - sz % 4) % 4), "eof_missing = number of padding bytes that complete the last word");
    { unsigned k, miss = (unsigned)((4 - sz % 4) % 4); int z = 1; for (k = 0; k < 3; k++) if (k < miss && buf[sz + k] != 0) z = 0; V_ASSERT(z, "the bytes that pad the last word are zeroed"); }
    V_ASSERT(tail_offs == t0 + (sz + 3) / 4, "tail offset advances by the block size in words");
    V_CANARY("input queued");
  } else V_CANARY("input dropped after end of stream");
}

/* ================= O9.1: bits_init / attach / detach position arithmetic ================= */
#ifndef GRANUL
#define GRANUL 262144u
#endif
/* position of absolute bit P of the compressed file (after the 4 header bytes), G = words per input block */
static struct position spec_pos(uintmax_t P)
{
  struct position p; uintmax_t w = P / 32, G = GRANUL / 4;
  p.major = w / G; p.minor = ((w % G) << 32) + ((P % 32) << 27);
  return p;
}

void h_pos_lemma(void)
{
  V_IN(uintmax_t, P1);
  V_IN(uintmax_t, P2);
  V_ASSUME(P1 < ((uintmax_t)1 << 60) && P2 < ((uintmax_t)1 << 60));
  struct position a = spec_pos(P1), b = spec_pos(P2);
  V_ASSERT(POS_LT(a, b) == (P1 < P2), "position order is the order of absolute bit positions");
  V_ASSERT(POS_EQ(a, b) == (P1 == P2), "equal positions mean the same bit of the file (injective)");
  V_CANARY("pos lemma");
}

void h_bits_init(void)
{
  V_IN(uintmax_t, off);
  V_ASSUME(off < ((uintmax_t)1 << 55));
  in_granul = GRANUL;
  struct detached_bitstream d = bits_init(off);
  struct position want = spec_pos(32 * off);
  V_ASSERT(d.offset == off && d.live == 0 && d.buff == 0 && !d.eof && POS_EQ(d.pos, want), "bits_init(offset): empty buffer at word offset, position of bit 32*offset");
  V_CANARY("bits_init");
}

void h_attach_detach(void)
{
  setup(T_ATTACH);                         /* bounded input queue (<= 2 blocks), everything else symbolic */
  in_granul = GRANUL;
  struct detached_bitstream d;
  { struct detached_bitstream x; d = x; }
  V_ASSUME(d.live <= 63 && (d.live == 0 ? d.buff == 0 : (d.buff << d.live) == 0) && d.offset >= head_offs && (!d.eof || d.live < 32));
  V_ASSUME(can_attach(d));
  V_ASSUME(32 * (__int128)d.offset >= d.live);
  uintmax_t P0 = 32 * d.offset - d.live;
  unsigned rc_sum0 = 0; { unsigned i; for (i = 0; i < 2; i++) if (i < input_q.size) rc_sum0 += input_q.root[dq_index(input_q.head, i, input_q.modulus)]->ref_count; }
  struct bitstream bs = attach(d);
  unsigned rc_sum1 = 0; { unsigned i; for (i = 0; i < 2; i++) if (i < input_q.size) rc_sum1 += input_q.root[dq_index(input_q.head, i, input_q.modulus)]->ref_count; }
  V_ASSERT(!g_held, "attach() leaves the monitor");
  V_ASSERT(bs.live == d.live && bs.buff == d.buff, "attach: buffered bits carried over");
  if (d.offset == tail_offs) {
    V_ASSERT(bs.data == 0 && bs.limit == 0 && bs.block == 0 && bs.eof == (d.live < 32) && rc_sum1 == rc_sum0, "attach at end of input: no data, no block referenced, eof once fewer than 32 bits are buffered");
  } else {
    struct in_blk *b = bs.block;
    V_ASSERT(b != 0 && d.offset >= b->offset && d.offset - b->offset < b->size, "attach: the block found is the one containing the word offset");
    V_ASSERT(bs.data == (const uint32_t *)b->buffer + (d.offset - b->offset) && bs.limit == (const uint32_t *)b->buffer + b->size, "attach: data/limit delimit the unread words of that block");
    V_ASSERT(rc_sum1 == rc_sum0 + 1 && bs.eof == d.eof, "attach: takes exactly one reference on the block (it stays alive while the reader is outside the monitor); eof flag carried");
    /* consume some words and bits outside the monitor */
    size_t adv; V_ASSUME(adv <= (size_t)(bs.limit - bs.data)); bs.data += adv;
    unsigned lv; V_ASSUME(lv <= 63 && (lv <= d.live || adv > 0) && lv <= d.live + 32 * adv); bs.live = lv;
    g_my_block = b;
    uintmax_t words_at = b->offset + (uintmax_t)(bs.data - (const uint32_t *)b->buffer);
    uintmax_t P1 = 32 * words_at - lv;
    struct detached_bitstream e = detach(bs);
    V_ASSERT(g_held, "detach() re-enters the monitor");
    V_ASSERT(e.live == bs.live && e.buff == bs.buff && e.eof == bs.eof, "detach: buffered bits and eof flag carried over");
    V_ASSERT(32 * (__int128)e.offset - e.live == (__int128)P1, "detach: the absolute bit position is exactly where the reader stopped");
    V_ASSERT(POS_EQ(e.pos, spec_pos(P1)), "detach: pos is the canonical position of that absolute bit (independent of block boundaries)");
    if (adv == 0 && lv == d.live) V_ASSERT(32 * (__int128)e.offset - e.live == (__int128)P0, "detach(attach(d)) without consumption preserves the bit position");
    V_CANARY("attach/detach inside a block");
  }
}
