/* Harnesses over the thread procedures and I/O callbacks of src/process.c (woven: contracts/process.c.spec).
   Method as in h_compress.c / h_expand.c: every procedure is sequential code run against monitors whose protected state is
   havocked (subject to the monitor invariant) whenever the mutex is (re-)acquired; loops are checked by one generic iteration
   (see process.c.spec).  Three monitors: source (in_slots, request_close), sink (output_q, finish), scheduler (eof, work_units,
   out_slots, next_task). */
#include "verif.h"
#include "src/process.c"
#include "c12_undef.h"
/* C12: what "the guard holds" means in this monitor model */
int g_multi;                                  /* other threads of the run may exist */
extern int g_held_source, g_held_sink, g_held_sched;
int verif_lock_ok(int guard) { return !g_multi || (guard == C12_SOURCE ? g_held_source : guard == C12_SINK ? g_held_sink : g_held_sched); }

#include "process_contracts.h"

/* ---------------- ghost */
int g_held_source, g_held_sink, g_held_sched;
int g_iter_stop;
int g_iter_end_seen;                 /* which loop reached its next iteration */
unsigned g_my_in_slots;              /* input slots this thread holds (taken from in_slots, not yet handed on / given back) */
unsigned g_oth_in_slots;             /* input slots held elsewhere (queued chunks, other threads) */
unsigned g_sink_queued_total;        /* ghost: output slots represented by buffers in output_q */
int g_on_block_calls, g_on_written_calls, g_src_release_calls;
void *g_on_block_buf; size_t g_on_block_size; void *g_on_written_buf;
int g_signal_source, g_signal_sink, g_signal_sched, g_bcast_sched;
int g_task_ready[3], g_task_runs[3], g_finished_val, g_finished_calls;
int g_ran_with_ready;                /* every task that ran had ready() true under the same lock acquisition */
void *g_malloced; size_t g_malloc_size;
int g_sigusr2;
int g_fn;                            /* which procedure is under test (selects the spec table below) */
enum { FN_READER = 1, FN_RELEASE, FN_CLOSE, FN_SINK_WRITE, FN_WRITER, FN_OTHER };
unsigned g_unlocks_source;
unsigned g_my_push, g_oth_push;      /* holders of an output slot that have not pushed their buffer yet (this thread / others) */
unsigned g_s_in_slots; unsigned g_s_outq;   /* values found when the monitor was entered */
int g_prologue_only, g_prologue_ok;

/* monitor invariants */
#define I_SOURCE ((uintmax_t)in_slots + g_my_in_slots + g_oth_in_slots == total_in_slots)
#define I_SINK   ((uintmax_t)output_q.size + g_my_push + g_oth_push <= output_q.modulus && output_q.head < output_q.modulus)
/* K: the scheduler's hint is either empty or names a task that is ready right now */
static int task_index(const struct task *t);
#define K_SCHED  (next_task == 0 || (task_index(next_task) >= 0 && g_task_ready[task_index(next_task)]))

static struct block g_outq_store[8];

static void env_runs(pthread_mutex_t *m)
{
  if (m == &source_mutex) {
    unsigned a, o; bool rc;
    in_slots = a; g_oth_in_slots = o; if (!request_close) request_close = rc;      /* request_close is only ever set */
    __CPROVER_assume(I_SOURCE);
    g_s_in_slots = in_slots;
  } else if (m == &sink_mutex) {
    unsigned sz, hd, op; bool f;
    output_q.size = sz; output_q.head = hd; g_oth_push = op; if (!finish) finish = f;               /* finish is only ever set */
    __CPROVER_assume(I_SINK);
    g_s_outq = output_q.size;
    if (output_q.size > 0) { struct block b; size_t n; __CPROVER_assume(n < XR_MAX); b.size = n; b.buffer = malloc(n ? n : 1); __CPROVER_assume(b.buffer != 0);
      output_q.root[output_q.head + 1 < output_q.modulus ? output_q.head + 1 : output_q.head + 1 - output_q.modulus] = b; }
  } else {
    unsigned w, o; bool e; int r0, r1, r2, f; const struct task *nt;
    work_units = w; out_slots = o; if (!eof) eof = e;                              /* eof is only ever set */
    g_task_ready[0] = r0 != 0; g_task_ready[1] = r1 != 0; g_task_ready[2] = r2 != 0; g_finished_val = f != 0;
    { int k; __CPROVER_assume(k >= -1 && k <= 2); next_task = k < 0 ? 0 : &process->tasks[k]; }
    __CPROVER_assume(K_SCHED);
  }
}

/* ---------------- pthread primitives (sequential monitor model) */
static int *held_flag(pthread_mutex_t *m)
{ return m == &source_mutex ? &g_held_source : m == &sink_mutex ? &g_held_sink : &g_held_sched; }
int pthread_mutex_lock(pthread_mutex_t *m)
{
  if (g_prologue_only && m == &sched_mutex) {           /* primary_thread prologue harness: cut where the first worker enters the scheduler */
    __CPROVER_assert(g_prologue_ok, "primary_thread: init() ran before any worker enters the scheduler");
    __CPROVER_assert(0, "CANARY prologue complete");
    __CPROVER_assume(0);
  }
  __CPROVER_assert(m == &source_mutex || m == &sink_mutex || m == &sched_mutex, "lock: known mutex");
  __CPROVER_assert(!*held_flag(m), "lock: mutex not already held by this thread");
  __CPROVER_assert(!g_held_source && !g_held_sink && !g_held_sched, "lock order: no monitor is entered while another one is held");
  env_runs(m);
  *held_flag(m) = 1; return 0;
}
int pthread_mutex_unlock(pthread_mutex_t *m)
{
  __CPROVER_assert(*held_flag(m), "unlock: mutex held by this thread");
  /* ---- SPEC: what this thread holds when it leaves a monitor (declared here, not derived from the counter updates in the code) */
  if (m == &source_mutex) {
    g_unlocks_source++;
    if (g_fn == FN_READER) g_my_in_slots = (g_unlocks_source == 1 && !request_close) ? 1 : 0;     /* 1st: the slot for the chunk about to be read (none if told to close); 2nd (empty chunk): given back */
    else if (g_fn == FN_RELEASE) g_my_in_slots = 0;                                                  /* the released buffer's slot is back in the pool */
  }
  if (m == &sink_mutex && g_fn == FN_SINK_WRITE) g_my_push = 0;                                      /* the buffer is in the queue now */
  if (m == &source_mutex) __CPROVER_assert(I_SOURCE, "source monitor: input slots are conserved (free + held + queued == total) when the monitor is left");
  if (m == &sink_mutex) __CPROVER_assert(I_SINK, "sink monitor: the output queue stays within its capacity");
  if (m == &sched_mutex) __CPROVER_assert(K_SCHED, "scheduler monitor: on leaving, the task hint is empty or names a task that is ready");
  *held_flag(m) = 0; return 0;
}
int pthread_cond_wait(pthread_cond_t *c, pthread_mutex_t *m)
{
  __CPROVER_assert(*held_flag(m), "cond_wait: mutex held");
  __CPROVER_assert((c == &source_cond && m == &source_mutex) || (c == &sink_cond && m == &sink_mutex) || (c == &sched_cond && m == &sched_mutex), "cond_wait: condition variable paired with its mutex");
  if (m == &source_mutex) __CPROVER_assert(I_SOURCE, "source monitor invariant before waiting");
  if (m == &sched_mutex) __CPROVER_assert(K_SCHED, "scheduler monitor invariant before waiting");
  env_runs(m);
  /* reader / writer wait loops: the state after a wake-up is an arbitrary state satisfying the monitor invariant -- exactly the state
     space already covered by the path that found its condition true right after the lock; so the path ends here (induction over waits) */
  if (c != &sched_cond) __CPROVER_assume(0);
  return 0;
}
int pthread_cond_signal(pthread_cond_t *c)
{
  if (c == &source_cond) { __CPROVER_assert(g_held_source, "source condition signalled inside its monitor"); g_signal_source++; }
  else if (c == &sink_cond) { __CPROVER_assert(g_held_sink, "sink condition signalled inside its monitor"); g_signal_sink++; }
  else { __CPROVER_assert(g_held_sched, "scheduler condition signalled inside its monitor"); g_signal_sched++; }
  return 0;
}
int pthread_cond_broadcast(pthread_cond_t *c) { __CPROVER_assert(c == &sched_cond && g_held_sched, "broadcast: scheduler condition inside its monitor"); g_bcast_sched++; return 0; }
int g_threads_created, g_threads_joined;
int g_copy_check;
int pthread_create(pthread_t *t, const pthread_attr_t *a, void *(*f)(void *), void *arg)
{
  int r;
  if (g_copy_check && g_threads_created == 0)
    __CPROVER_assert(!eof && in_slots == 2 && out_slots == 2 && total_out_slots == 2 && !request_close && !finish && output_q.size == 0,
                     "copy(): before its threads start, end-of-input, the slot counters, the close/finish requests and the output queue are reset whatever earlier operands left");
  if (r == 0) { g_threads_created++; g_multi = 1; }
  return r;
}
int pthread_join(pthread_t t, void **rv)
{
  g_threads_joined++;
  if (g_threads_joined == g_threads_created) {        /* every thread of the run has ended: single-threaded again */
    g_multi = 0;
    output_q.size = 0;                                 /* the writer ends only with the queue empty (process.sink_thread) and nobody can push any more */
  }
  return 0;
}

/* ---------------- objects and functions of other translation units */
struct filespec ispec, ospec;
unsigned num_worker; bool decompress, force, verbose, small, ultra; unsigned bs100k;
const struct process compression, expansion;
void info(const char *fmt, ...) { }
void display(const char *fmt, ...) { }
void failfx(const struct filespec *f, int x, const char *fmt, ...) { g_reporter_called = 1; __CPROVER_assume(0); }
void failf(const struct filespec *f, const char *fmt, ...) { g_reporter_called = 1; __CPROVER_assume(0); }
void failx(int x, const char *fmt, ...) { g_reporter_called = 1; __CPROVER_assume(0); }
void *xmalloc(size_t n) { void *p = malloc(n); __CPROVER_assume(p != 0); g_malloced = p; g_malloc_size = n; return p; }
int g_halt_calls;
void halt(void)
{
  g_halt_calls++;
  if (g_copy_check) {       /* copy(): what the pseudo process looks like while the main thread waits for it */
    __CPROVER_assert(process->tasks->ready == 0 && process->finished == copy_terminate && process->on_block == copy_on_input_avail && process->on_written == copy_on_write_complete,
                     "copy(): the pseudo process has no tasks, the copy callbacks and copy_terminate as its stop test");
    __CPROVER_assert(total_out_slots == 2 && in_granul == 65536 && g_threads_created == 2, "copy(): two buffers of 64 KiB circulate between one reader and one writer thread");
    __CPROVER_assert(0, "CANARY copy waits for completion");
  }
}
void xraise(int sig) { __CPROVER_assert(sig == SIGUSR2, "only SIGUSR2 (normal completion) is raised from process.c"); g_sigusr2++; }
int isatty(int fd) { int r; return r != 0; }
struct timespec ts_now(void) { struct timespec t; return t; }
bool ts_before(struct timespec a, struct timespec b) { bool r; return r; }
struct timespec ts_add_nano(struct timespec a, long n) { return a; }
double ts_diff(struct timespec a, struct timespec b) { return 0; }

/* ---------------- the process under the scheduler: three abstract tasks */
static bool ready0(void) { __CPROVER_assert(g_held_sched || g_threads_created == 0, "ready() predicates are evaluated inside the scheduler monitor (or before any thread of the run exists)"); return g_task_ready[0]; }
static bool ready1(void) { __CPROVER_assert(g_held_sched || g_threads_created == 0, "ready() predicates are evaluated inside the scheduler monitor (or before any thread of the run exists)"); return g_task_ready[1]; }
static bool ready2(void) { __CPROVER_assert(g_held_sched || g_threads_created == 0, "ready() predicates are evaluated inside the scheduler monitor (or before any thread of the run exists)"); return g_task_ready[2]; }
static void run_common(int i)
{
  __CPROVER_assert(g_held_sched, "a task runs inside the scheduler monitor");
  __CPROVER_assert(g_task_ready[i], "a task runs only if its ready() predicate holds under the same lock acquisition");
  g_task_runs[i]++;
  { int a, b, c, f; g_task_ready[0] = a != 0; g_task_ready[1] = b != 0; g_task_ready[2] = c != 0; g_finished_val = f != 0; }   /* running a task changes the scheduler state arbitrarily */
}
static void run0(void) { run_common(0); }
static void run1(void) { run_common(1); }
static void run2(void) { run_common(2); }
static bool h_finished(void) { __CPROVER_assert(g_held_sched, "finished() is evaluated inside the scheduler monitor"); g_finished_calls++; return g_finished_val; }
static void h_on_block(void *buffer, size_t size)
{
  __CPROVER_assert(!g_held_source && !g_held_sink && !g_held_sched, "on_block() is called outside every monitor");
  g_on_block_calls++; g_on_block_buf = buffer; g_on_block_size = size;
  __CPROVER_assert(g_my_in_slots == 1, "on_block(): the reader hands over the input slot it took");
  g_my_in_slots--; g_oth_in_slots++;
}
static void h_on_written(void *buffer) { __CPROVER_assert(!g_held_source && !g_held_sink && !g_held_sched, "on_written() is called outside every monitor"); g_on_written_calls++; g_on_written_buf = buffer; }
static void h_init(void)
{
  if (g_prologue_only) {
    __CPROVER_assert(!eof && in_slots == total_in_slots && out_slots == total_out_slots && work_units == num_worker,
                     "primary_thread: every run starts from the canonical counters (eof clear, all input slots, output slots and work units free) whatever the previous run left");
    __CPROVER_assert(g_threads_created == 0, "primary_thread: init() runs before any thread of this run is created");
    g_prologue_ok = 1;
  }
}
static const struct task h_tasks[] = { { "t0", ready0, run0 }, { "t1", ready1, run1 }, { "t2", ready2, run2 }, { 0, 0, 0 } };
static const struct process h_proc = { h_tasks, h_init, h_init, h_finished, h_on_block, h_on_written };
static int task_index(const struct task *t) { return t == &h_tasks[0] ? 0 : t == &h_tasks[1] ? 1 : t == &h_tasks[2] ? 2 : -1; }

void verif_iteration_end(int which)
{
  g_iter_end_seen = which;
  __CPROVER_assert(!g_held_source && !g_held_sink || which >= 3, "I/O thread loops start an iteration outside every monitor");
  if (which == 1) {
    __CPROVER_assert(g_my_in_slots == 0, "reader: the slot taken in this iteration was handed to on_block() or given back");
    __CPROVER_assert(g_rd_last != 0, "reader: it continues only after a chunk that was filled completely (no read after end of file)");
    __CPROVER_assert(0, "CANARY reader continues");
  }
  if (which == 2) { __CPROVER_assert(g_on_written_calls == 1, "writer: each buffer taken from the queue is written and reported exactly once"); __CPROVER_assert(0, "CANARY writer continues"); }
  if (which == 3) { __CPROVER_assert(g_held_sched && K_SCHED, "worker: after a task the hint is recomputed inside the monitor"); __CPROVER_assert(0, "CANARY worker continues after a task"); }
  if (which == 4) { __CPROVER_assert(g_held_sched, "worker: wakes up inside the monitor"); __CPROVER_assert(0, "CANARY worker woke up"); }
  __CPROVER_assume(0);
}

static void setup(void)
{
  unsigned tin, tout; size_t ig;
  __CPROVER_assume(tin >= 1 && tin <= 4000000 && tout >= 1 && tout <= 16000000 && ig >= 1 && ig < XR_MAX);
  total_in_slots = tin; total_out_slots = tout; in_granul = ig;
  process = &h_proc;
  output_q.root = g_outq_store; output_q.modulus = 8; output_q.size = 0; output_q.head = 0;
  /* every ghost variable is set explicitly: under --dfcc static storage starts nondeterministic */
  g_held_source = g_held_sink = g_held_sched = 0; g_iter_end_seen = 0; g_oth_in_slots = 0;
  g_on_block_calls = g_on_written_calls = g_src_release_calls = 0; g_on_block_buf = 0; g_on_block_size = 0; g_on_written_buf = 0;
  g_signal_source = g_signal_sink = g_signal_sched = g_bcast_sched = 0; g_finished_calls = 0; g_finished_val = 0;
  g_task_ready[0] = g_task_ready[1] = g_task_ready[2] = 0; g_task_runs[0] = g_task_runs[1] = g_task_runs[2] = 0;
  g_malloced = 0; g_malloc_size = 0; g_sigusr2 = 0; g_fn = FN_OTHER; g_unlocks_source = 0; g_my_push = g_oth_push = 0; g_s_in_slots = 0; g_s_outq = 0;
  g_prologue_only = g_prologue_ok = 0; g_threads_created = g_threads_joined = 0; g_copy_check = 0; g_halt_calls = 0; g_rd_calls = g_wr_calls = 0; g_sched_calls = g_copy_calls = 0;
  eof = 0; request_close = 0; finish = 0; in_slots = 0; out_slots = 0; work_units = 0;
  g_multi = 1;
  g_my_in_slots = 0; g_iter_stop = 1; g_reporter_called = 0; g_rd_failed = 0; g_wr_failed = 0; g_rd_last = 1;
  __CPROVER_assume(g_rd_delivered < 1000 && g_wr_accepted < 1000 && ispec.total < 1000 && ospec.total < 1000);
  next_task = 0;
}

/* ================= reader thread: O3.1 (chunks), O11 (input slots), C12 ================= */
void h_source_thread(void)
{
  setup();
  { bool rc; request_close = rc; }
  g_fn = FN_READER;
  source_thread_proc();
  /* the loop was left: premature close request, or a chunk that came back short (end of file) */
  V_ASSERT(!g_held_source && !g_held_sink && !g_held_sched, "reader: returns outside every monitor");
  V_ASSERT(eof, "reader: end of input is published (eof set) before the thread ends");
  V_ASSERT(g_my_in_slots == 0, "reader: no input slot is kept when the thread ends");
  V_ASSERT(g_on_block_calls <= 1 && (g_on_block_calls == 0 || (g_on_block_size >= 1 && g_on_block_size <= in_granul && g_on_block_buf == g_malloced && g_malloc_size == in_granul)),
           "reader: a chunk is delivered in a buffer of exactly the chunk size, with the number of bytes read into it");
  if (g_on_block_calls == 1) V_CANARY("reader delivers the last, short chunk");
  if (g_on_block_calls == 0) V_CANARY("reader ends without a chunk");
}

/* ================= writer thread: O3.2 ================= */
void h_sink_thread(void)
{
  setup();
  { bool f; finish = f; }
  g_fn = FN_WRITER;
  sink_thread_proc();
  V_ASSERT(!g_held_source && !g_held_sink && !g_held_sched, "writer: returns outside every monitor");
  V_ASSERT(finish && output_q.size == 0, "writer: ends only when told to finish and the queue is empty (nothing queued is dropped)");
  V_CANARY("writer ends");
}

/* ================= source_release_buffer / source_close / sink_write_buffer ================= */
void h_source_release_buffer(void)
{
  setup();
  g_my_in_slots = 1; g_fn = FN_RELEASE;               /* the caller owns the slot of the buffer it releases */
  void *b = malloc(8); V_ASSUME(b != 0);
  g_iter_stop = 0; g_signal_source = 0;
  source_release_buffer(b);
  V_ASSERT(!g_held_source && g_my_in_slots == 0, "source_release_buffer: the slot is returned inside the source monitor, monitor left");
  V_ASSERT((g_signal_source >= 1) == (g_s_in_slots == 0), "source_release_buffer: the reader is woken exactly when it may be waiting for a slot (none was free)");
  V_CANARY("source_release_buffer");
}
void h_source_close(void)
{
  setup(); g_iter_stop = 0; g_fn = FN_CLOSE; g_signal_source = 0;
  source_close();
  V_ASSERT(request_close && !g_held_source, "source_close: the close request is recorded, monitor left");
  V_ASSERT(g_s_in_slots != 0 || g_signal_source >= 1, "source_close: a reader waiting for a slot is woken");
  V_CANARY("source_close");
}
void h_sink_write_buffer(void)
{
  setup(); g_iter_stop = 0; g_fn = FN_SINK_WRITE; g_my_push = 1;        /* the caller holds the output slot of the buffer it queues */
  void *b = malloc(8); size_t n, w; V_ASSUME(b != 0);
  sink_write_buffer(b, n, w);
  V_ASSERT(!g_held_sink && g_signal_sink >= 1, "sink_write_buffer: queued inside the sink monitor and the writer is woken");
  { unsigned li = output_q.head + output_q.size < output_q.modulus ? output_q.head + output_q.size : output_q.head + output_q.size - output_q.modulus;
    V_ASSERT(output_q.size == g_s_outq + 1 && output_q.root[li].buffer == b && output_q.root[li].size == n && output_q.root[li].weight == w, "sink_write_buffer: the buffer is appended at the tail of the queue with its size (FIFO order)"); }
  V_CANARY("sink_write_buffer");
}

/* ================= scheduler: sched_unlock / select_task / worker loop: O11.4 ================= */
void h_sched_unlock(void)
{
  setup(); g_iter_stop = 0;
  env_runs(&sched_mutex); g_held_sched = 1;
  { int a, b, c, f; g_task_ready[0] = a != 0; g_task_ready[1] = b != 0; g_task_ready[2] = c != 0; g_finished_val = f != 0; }   /* the caller changed the state inside the monitor */
  g_signal_sched = 0;
  sched_unlock();
  int any = g_task_ready[0] || g_task_ready[1] || g_task_ready[2];
  V_ASSERT(!g_held_sched, "sched_unlock leaves the monitor");
  V_ASSERT((g_signal_sched >= 1) == (any || g_finished_val), "sched_unlock wakes a worker exactly when some task is ready or the process is finished");
  V_ASSERT(any ? (next_task != 0 && g_task_ready[task_index(next_task)] && (task_index(next_task) == 0 || !g_task_ready[0]) && (task_index(next_task) <= 1 || !g_task_ready[1])) : next_task == 0,
           "select_task picks the first ready task in priority order, or none");
  V_CANARY("sched_unlock");
}
void h_worker(void)
{
  setup();
  worker_thread_proc();
  /* returns only through the 'finished' exit */
  V_ASSERT(!g_held_sched && g_bcast_sched == 1 && g_finished_calls >= 1, "worker: ends only when the process is finished, wakes the other workers and leaves the monitor");
  V_ASSERT(g_task_runs[0] + g_task_runs[1] + g_task_runs[2] == 0, "worker (generic iteration): the exit path runs no task");
  V_CANARY("worker ends");
}

/* ================= -cdf copy pipeline callbacks: O19.2 ================= */
void h_copy_callbacks(void)
{
  setup(); g_iter_stop = 0;
  total_out_slots = 2;
  void *b = malloc(8); size_t n; V_ASSUME(b != 0 && n >= 1 && n <= 65536);
  g_my_in_slots = 1; g_my_push = 1; g_fn = FN_OTHER;
  int which;
  g_fn = which ? FN_SINK_WRITE : FN_RELEASE;      /* the callbacks end in sink_write_buffer() / source_release_buffer() */
  if (which) {
    copy_on_input_avail(b, n);
    V_ASSERT(!g_held_sched && !g_held_sink && g_signal_sink >= 1, "copy: an input buffer is queued for writing, whole and once");
    V_CANARY("copy forwards a buffer");
  } else {
    copy_on_write_complete(b);
    V_ASSERT(!g_held_sched && !g_held_source, "copy: a written buffer goes back to the reader");
    V_CANARY("copy recycles a buffer");
  }
}
void h_copy_terminate(void)
{
  setup(); g_iter_stop = 0;
  total_out_slots = 2;
  env_runs(&sched_mutex); g_held_sched = 1;
  g_sigusr2 = 0;
  bool r = copy_terminate();
  V_ASSERT(!r, "copy_terminate never reports 'finished' to the (absent) workers");
  V_ASSERT((g_sigusr2 == 1) == (eof && out_slots == total_out_slots), "copy ends exactly when end of input was seen and no buffer is in flight (nothing queued is dropped)");
  V_CANARY("copy_terminate");
}

/* ================= primary_thread prologue: O18.1 ================= */
void h_primary_prologue(void)
{
  setup(); g_iter_stop = 0; g_fn = FN_OTHER;
  { unsigned nw; V_ASSUME(nw >= 1 && nw <= 3); num_worker = nw; }          /* the worker-creation loop is unwound: <= 3 workers here */
  { bool e; unsigned a, b, c; eof = e; in_slots = a; out_slots = b; work_units = c; }    /* whatever the previous operand left */
  static pthread_t wt[3]; worker_thread = wt;
  g_prologue_only = 1; g_prologue_ok = 0; g_multi = 0;      /* no thread of this run exists yet (the main thread waits in halt()) */
  { int a, b, c; g_task_ready[0] = a != 0; g_task_ready[1] = b != 0; g_task_ready[2] = c != 0; }
  primary_thread();
  V_ASSERT(0, "primary_thread: the run is cut where the workers start");
}


/* ================= B1: priority-queue primitives up_heap()/down_heap() (bounded: heap size <= HEAP_N) =================
   These are the bodies behind enqueue()/dequeue(); the monitor harnesses of compress.c/expand.c use the stub contract
   "dequeue hands out the old head at root[size]; the multiset of queued elements is otherwise preserved". */
#ifndef HEAP_N
#define HEAP_N 7
#endif
static int pos_lt_f(const struct position *a, const struct position *b) { return a->major < b->major || (a->major == b->major && a->minor < b->minor); }
void h_heap(void)
{
  struct position pool[HEAP_N + 1]; struct position *root[HEAP_N + 1]; struct position *old[HEAP_N + 1];
  V_IN(unsigned, n);
  V_IN(int, op);
  unsigned i, j;
  V_ASSUME(n >= 1 && n <= HEAP_N);
  for (i = 0; i <= HEAP_N; i++) { unsigned short a, b; pool[i].major = a; pool[i].minor = b; root[i] = &pool[i]; old[i] = root[i]; }
  /* min-heap order on root[0..n) before the operation */
  for (i = 1; i < HEAP_N; i++) if (i < n) V_ASSUME(!pos_lt_f(root[i], root[(i - 1) / 2]));
  if (op) {
    /* enqueue: the new element sits at root[n], heap holds n elements */
    up_heap(root, n);
    for (i = 1; i <= HEAP_N; i++) if (i <= n) V_ASSERT(!pos_lt_f(root[i], root[(i - 1) / 2]), "up_heap: heap order holds on the n+1 elements (the head is a minimum)");
    for (i = 0; i <= HEAP_N; i++) { unsigned cnt = 0; for (j = 0; j <= HEAP_N; j++) if (j <= n && root[j] == old[i]) cnt++; if (i <= n) V_ASSERT(cnt == 1, "up_heap: the queue holds exactly the old elements plus the new one"); }
    V_CANARY("enqueue");
  } else {
    /* dequeue: called with the new size n-1; the last element is root[n-1] */
    down_heap(root, n - 1);
    V_ASSERT(root[n - 1] == old[0], "down_heap: the old head (a minimum) is handed out at root[size]");
    for (i = 1; i < HEAP_N; i++) if (i + 1 < n) V_ASSERT(!pos_lt_f(root[i], root[(i - 1) / 2]), "down_heap: heap order holds on the remaining elements");
    for (i = 0; i <= HEAP_N; i++) { unsigned cnt = 0; for (j = 0; j <= HEAP_N; j++) if (j < n && root[j] == old[i]) cnt++; if (i < n) V_ASSERT(cnt == 1, "down_heap: every queued element is still there exactly once"); }
    V_ASSERT(root[n] == old[n], "down_heap: nothing beyond the queue is touched");
    V_CANARY("dequeue");
  }
}


/* ================= init_io(): per-run reset of the I/O side, shared by schedule() and the -cdf copy() (C18 O18.1, C19) ================= */
void h_init_io(void)
{
  setup(); g_iter_stop = 0; g_fn = FN_OTHER; g_multi = 0;           /* no thread of this run exists yet */
  { bool a, b; request_close = a; finish = b; }                       /* whatever the previous operand left (a finished decompression leaves request_close set) */
  { unsigned o; V_ASSUME(o >= 1 && o <= 8); out_slots = o; }
  { unsigned sz, hd; output_q.size = sz; output_q.head = hd; output_q.root = 0; }
  unsigned cap = out_slots;
  init_io();
  V_ASSERT(!request_close && !finish, "init_io(): every run starts with no close request and no finish request pending, whatever the previous run left");
  V_ASSERT(output_q.size == 0 && output_q.modulus == cap && __CPROVER_OBJECT_SIZE(output_q.root) == cap * sizeof(struct block), "init_io(): the output queue starts empty with room for every output slot");
  V_ASSERT(g_threads_created == 2, "init_io(): the writer and the reader thread are started");
  V_CANARY("init_io");
}


/* ================= copy(): set-up of the -cdf pass-through (C19 O19.2, C18) ================= */
static int g_copy_prologue_ok;
void h_copy(void)
{
  setup(); g_iter_stop = 0; g_fn = FN_OTHER; g_multi = 0; g_copy_check = 1; g_halt_calls = 0;
  { bool a, b, c; unsigned x, y, z; eof = a; request_close = b; finish = c; in_slots = x; out_slots = y; total_out_slots = z; }     /* leftovers of earlier operands */
  { unsigned sz, hd; output_q.size = sz; output_q.head = hd; output_q.root = 0; }
  copy();
  V_ASSERT(g_halt_calls == 1 && g_threads_joined == 2, "copy(): waits for completion once, then joins both I/O threads");
  V_CANARY("copy returns");
}

#ifdef VERIF_REPLAY
int main(void) { HARNESS(); puts("REPLAY-PASS"); return 0; }
#endif
