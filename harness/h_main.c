/* Harnesses over src/main.c (unwoven except ghost includes) with a ghost file system and
   POSIX stubs that return every outcome POSIX allows (each call position is a fault point). */
#include "verif.h"
#include "src/main.c"
#include "main_spec.h"

/* ================= ghost file system (B5) ================= */
enum { OUT_NONE, OUT_OPEN_PARTIAL, OUT_CLOSED_COMPLETE };
int g_out_state;              /* state of the output file of the current operand */
const char *g_out_path;       /* its path (the pointer the program passed to open) */
int g_out_fd = -100;
int g_in_fd = -100;
int g_in_removed;             /* the input operand was unlinked */
int g_touched_existing;       /* an existing file was removed/modified before creation */
int g_sig_blocked;            /* SIGINT/SIGTERM/SIGUSR1/2 blocked in the main thread (between cli and sti) */
int g_bailouts;
int g_rep_mode = -1, g_rep_x;
static int g_opts_harness, g_opts_expect_fail;   /* set by h_reporters only */
int g_stderr_writes;
int g_stdout_close_failed;
int g_exit_status = -1;
const char *g_cur_operand;    /* name of the operand being processed */
struct stat g_instat_seen;
int g_chown_ok, g_chmod_calls, g_utimens_calls, g_close_out_calls, g_meta_step;
mode_t g_chmod_mode; struct timespec g_ut0, g_ut1;
int g_work_calls, g_open_in_calls;
mode_t g_open_mode;

/* invariant J: the tracked output path names exactly the partial output file, if any */
#define INV_J ((opathn != 0) == (g_out_state == OUT_OPEN_PARTIAL) && (opathn == 0 || opathn == g_out_path))

/* ================= stubs ================= */
void setup_signals(void) { }
void cli(void) { __CPROVER_assert(!g_sig_blocked, "cli(): signals are not already blocked (cli/sti balanced per operand)"); g_sig_blocked = 1; }
void sti(void) { __CPROVER_assert(g_sig_blocked, "sti(): matches a cli()"); g_sig_blocked = 0; }

/* bailout() (signals.c, _Noreturn).  Precondition of every fatal path: J holds, so that cleanup()
   (proved below) removes the partial output; the input must not have been removed unless the
   output is complete. */
void bailout(void)
{
  __CPROVER_assert(INV_J, "fatal path: tracked output path names exactly the partial output (cleanup() will remove it)");
  __CPROVER_assert(!g_in_removed || g_out_state == OUT_CLOSED_COMPLETE, "fatal path: input removed only after the output was closed complete");
  g_bailouts++;
  if (g_opts_harness) { __CPROVER_assert(g_opts_expect_fail, "opts_setup fails only where the documented rules reject the combination (-c with -t)"); }
  if (g_rep_mode >= 0 && g_rep_mode <= 3) {
    int with_errno = (g_rep_mode == 0 || g_rep_mode == 1);
    __CPROVER_assert(g_stderr_writes > 0 || (with_errno && (g_rep_x == EPIPE || g_rep_x == EFBIG)), "a fatal reporter prints a diagnostic unless the error is EPIPE or EFBIG");
    __CPROVER_assert(!(with_errno && (g_rep_x == EPIPE || g_rep_x == EFBIG)) || g_stderr_writes == 0, "EPIPE/EFBIG diagnostics are suppressed");
    __CPROVER_assert(0, "CANARY fatal reporter reaches bailout");
  }
  __CPROVER_assume(0);
}

/* stdio used by the DEF reporters */
int fprintf(FILE *f, const char *fmt, ...) { int r; g_stderr_writes++; return r; }
int vfprintf(FILE *f, const char *fmt, va_list ap) { int r; g_stderr_writes++; return r; }
int fflush(FILE *f) { int r; return r; }
void flockfile(FILE *f) { }
void funlockfile(FILE *f) { }
char *strerror(int e) { return "error"; }
void setbuf(FILE *f, char *b) { }
int isatty(int fd) { int r; if (g_opts_harness) return 0; return r != 0; }   /* C22 harness: stdin/stdout are not terminals (stated assumption) */
int printf(const char *fmt, ...) { int r; return r; }
int fclose(FILE *f) { int r; return r; }
void _exit(int st) { g_exit_status = st; if (st == 4) __CPROVER_assert(0, "CANARY exit status 4"); if (st == 0) __CPROVER_assert(0, "CANARY exit status 0"); __CPROVER_assert(INV_J && opathn == 0, "_exit: no partial output file is left"); __CPROVER_assert(!g_stdout_close_failed, "normal exit only if closing standard output succeeded: a failed close(stdout) is a failed write and must be fatal"); __CPROVER_assert(st == (warned ? 4 : 0), "normal exit status is 4 iff some operand was skipped with a warning, else 0"); __CPROVER_assume(0); }

#ifndef NAME_MAX_LEN
#define NAME_MAX_LEN 7
#endif
/* string functions: plain loops (bounded by NAME_MAX_LEN + suffix) */
size_t strlen(const char *s) { size_t n = 0; while (s[n]) n++; return n; }
int strcmp(const char *a, const char *b) { size_t i = 0; unsigned char ca, cb; for (;;) { ca = (unsigned char)a[i]; cb = (unsigned char)b[i]; if (!(ca && ca == cb)) break; i++; } return (int)ca - (int)cb; }
void *memcpy(void *d, const void *s, size_t n) { char *dd = d; const char *ss = s; for (size_t i = 0; i < n; i++) dd[i] = ss[i]; return d; }
char *strcpy(char *d, const char *s) { size_t i = 0; while ((d[i] = s[i])) i++; return d; }
/* -n/-m arguments are outside the C22 token menu: number parsing must be unreachable there (asserted), which also keeps symbolic
   execution from unrolling the library model on that path */
long strtol(const char *s, char **e, int b) { long r; __CPROVER_assert(0, "no token of the C22 menu reaches number parsing"); __CPROVER_assume(0); return r; }
char *strrchr(const char *s, int c) { const char *r = 0; for (;; s++) { if (*s == (char)c) r = s; if (!*s) break; } return (char *)r; }

/* ---- file system calls */
struct stat g_lstat; int g_lstat_calls, g_lstat_ok;
int lstat(const char *p, struct stat *sb) { int r; g_lstat_calls++; if (r) { g_lstat_ok = 0; return -1; } struct stat s; *sb = s; g_lstat = s; g_lstat_ok = 1; return 0; }
int g_stat_calls;
int stat(const char *p, struct stat *sb) { int r; g_stat_calls++; if (r) return -1; struct stat s; *sb = s; return 0; }   /* follows symbolic links: must not be used to classify an operand */
int fstat(int fd, struct stat *sb) { int r; if (r) return -1; struct stat s; __CPROVER_assume(s.st_size >= 0); *sb = s; g_instat_seen = s; return 0; }
int open(const char *path, int flags, ...)
{
  int fd;
  if (flags & O_CREAT) {
    va_list ap; va_start(ap, flags); mode_t mode = va_arg(ap, mode_t); va_end(ap);
    __CPROVER_assert(flags == (O_WRONLY | O_CREAT | O_EXCL), "output is created exclusively (never opens an existing file)");
    __CPROVER_assert(g_sig_blocked, "output is created only while SIGINT/SIGTERM are blocked");
    __CPROVER_assert(g_out_state != OUT_OPEN_PARTIAL, "at most one partial output at a time");
    g_open_mode = mode;
    if (fd < 3) return -1;
    g_out_state = OUT_OPEN_PARTIAL; g_out_path = path; g_out_fd = fd;
    return fd;
  }
  __CPROVER_assert(flags == (O_RDONLY | O_NOCTTY), "input opened read-only");
  g_open_in_calls++;
  if (fd < 3) return -1;
  __CPROVER_assume(fd != g_out_fd);
  g_in_fd = fd;
  return fd;
}
int close(int fd)
{
  int r;
  if (fd == g_out_fd && g_out_state == OUT_OPEN_PARTIAL) {
    __CPROVER_assert(g_meta_step == 3, "output is closed only after ownership, mode and times were transferred");
    g_close_out_calls++;
    if (r) return -1;                   /* data may be lost: the file stays "partial" */
    g_out_state = OUT_CLOSED_COMPLETE;
    return 0;
  }
  if (fd == STDOUT_FILENO && r) g_stdout_close_failed = 1;       /* deferred write error (NFS, quota ...) reported by close() */
  return r ? -1 : 0;
}
int unlink(const char *p)
{
  int r;
  if (g_out_state == OUT_OPEN_PARTIAL && p == g_out_path) { g_out_state = OUT_NONE; return r ? -1 : 0; }
  if (g_cur_operand && p == g_cur_operand) {
    __CPROVER_assert(g_out_state == OUT_CLOSED_COMPLETE, "input operand is removed only after its output was closed complete");
    __CPROVER_assert(outmode == OM_REGF && !keep, "input operand is removed only when writing files and -k/-c/-t are absent");
    if (r) return -1;
    g_in_removed = 1; return 0;
  }
  /* anything else is the pre-emptive removal of an existing output candidate */
  __CPROVER_assert(force, "an existing file is removed only under -f");
  g_touched_existing = 1;
  return r ? -1 : 0;
}
int fchown(int fd, uid_t u, gid_t g) { int r; __CPROVER_assert(fd == g_out_fd && g_meta_step == 0, "fchown first, on the output"); g_meta_step = 1; g_chown_ok = !r; return r ? -1 : 0; }
int fchmod(int fd, mode_t m) { int r; __CPROVER_assert(fd == g_out_fd && g_meta_step == 1 && g_chown_ok, "fchmod after a successful fchown"); g_meta_step = 2; g_chmod_calls++; g_chmod_mode = m; return r ? -1 : 0; }
int futimens(int fd, const struct timespec ts[2]) { int r; __CPROVER_assert(fd == g_out_fd && g_meta_step >= 1 && g_meta_step <= 2, "futimens after ownership/mode"); g_meta_step = 3; g_utimens_calls++; g_ut0 = ts[0]; g_ut1 = ts[1]; return r ? -1 : 0; }

void work(void)
{
  __CPROVER_assert(g_sig_blocked, "work(): runs with SIGINT/SIGTERM blocked (delivered only inside halt())");
  __CPROVER_assert(INV_J, "work(): J holds while signals can be taken in halt()");
  __CPROVER_assert(small == 0, "work(): --small is forced off");
  g_work_calls++;
  uintmax_t a, b; ispec.total = a; ospec.total = b;
  if (decompress) { unsigned d; __CPROVER_assume(d >= 1 && d <= 9); bs100k = d; }   /* work() stores the header digit */
}


/* ================= O17.2 suffix rules ================= */
static size_t sym_name(char *name)
{
  size_t len = 0, i;
  name[NAME_MAX_LEN] = 0;
  for (i = 0; i < NAME_MAX_LEN; i++) if (name[i] == 0) break;
  len = i;
  for (; i < NAME_MAX_LEN; i++) name[i] = 0;
  return len;
}

void h_suffix_compress(void)
{
  V_IN_ARR(char, name, NAME_MAX_LEN + 1);
  size_t len = sym_name(name);
  int r = suffix_xform(name, 0);
  V_ASSERT(r == spec_has_compressed_suffix(name, len), "suffix_xform(name,0): true exactly for names ending in .bz2 .tbz .tbz2 .tz2");
  if (r && len == 4) V_CANARY("whole name is a suffix");
  if (!r && len == NAME_MAX_LEN) V_CANARY("long plain name");
}

void h_suffix_decompress(void)
{
  V_IN_ARR(char, name, NAME_MAX_LEN + 1);
  size_t len = sym_name(name);
  char want[NAME_MAX_LEN + 6];
  char *out = 0;
  size_t wl = spec_decompressed_name(name, len, want);
  int r = suffix_xform(name, &out);
  V_ASSERT(r == 1 && out != 0, "suffix_xform(name,&out) always produces a name");
  V_ASSERT(__CPROVER_OBJECT_SIZE(out) == wl + 1, "decompressed name buffer is exactly name length + 1");
  size_t i; int same = 1;
  for (i = 0; i <= wl; i++) if (out[i] != want[i]) same = 0;
  V_ASSERT(same, "decompressed name follows the documented suffix rules");
  if (wl == len + 4) V_CANARY("name gets .out");
  if (wl + 4 == len) V_CANARY(".bz2 removed");
}

/* ================= O16.1 / O7.3 cleanup() ================= */
void h_cleanup(void)
{
  char path[4];
  { int st; V_ASSUME(st == OUT_NONE || st == OUT_OPEN_PARTIAL || st == OUT_CLOSED_COMPLETE); g_out_state = st; }
  { int has; if (has) { opathn = path; g_out_path = path; } else opathn = 0; }
  V_ASSUME(INV_J);
  int before = g_out_state;
  cleanup();
  V_ASSERT(opathn == 0, "cleanup(): the tracked path is cleared");
  V_ASSERT(g_out_state != OUT_OPEN_PARTIAL, "cleanup(): no partial output file remains");
  V_ASSERT(before != OUT_CLOSED_COMPLETE || g_out_state == OUT_CLOSED_COMPLETE, "cleanup(): a complete output is not removed");
  V_ASSERT(!g_in_removed && !g_touched_existing, "cleanup(): touches nothing else");
  if (before == OUT_OPEN_PARTIAL) V_CANARY("cleanup removes a partial output");
}

/* ================= O17.1 input_init(): operand admission ================= */
static void sym_options(void)
{
  bool b0, b1, b2, b3; int om;
  force = b0; keep = b1; decompress = b2; verbose = b3;
  V_ASSUME(om == OM_STDOUT || om == OM_DISCARD || om == OM_REGF); outmode = om;
}

void h_input_init(void)
{
  V_IN_ARR(char, name, NAME_MAX_LEN + 1);
  size_t len = sym_name(name);
  struct arg op; struct stat sb;
  op.next = 0; op.val = name;
  sym_options();
  warned = 0; g_open_in_calls = 0; g_lstat_calls = 0; g_stat_calls = 0; g_cur_operand = name;
  int rv = input_init(&op, &sb);
  V_ASSERT(rv == 0 || rv == -1, "input_init returns 0 or -1");
  V_ASSERT(rv != -1 || warned, "a skipped operand always sets the warning flag (exit status 4)");
  V_ASSERT(rv != 0 || (g_open_in_calls == 1 && ispec.fd == g_in_fd && ispec.fd >= 3 && ispec.total == 0), "an admitted operand was opened exactly once and is the input descriptor");
  V_ASSERT(force || g_lstat_calls == 1, "without -f the operand is lstat()ed first");
  V_ASSERT(g_stat_calls == 0, "the operand itself is examined (lstat), never the target of a symbolic link (stat): a symlink is not a regular file");
  if (!force) {
    V_ASSERT(g_lstat_ok || (rv == -1 && g_open_in_calls == 0), "lstat failure: skipped, never opened");
    if (g_lstat_ok && outmode == OM_REGF) {
      V_ASSERT(S_ISREG(g_lstat.st_mode) || (rv == -1 && g_open_in_calls == 0), "writing files: an operand that is not a regular file is skipped, never opened");
      V_ASSERT(keep || g_lstat.st_nlink <= 1 || (rv == -1 && g_open_in_calls == 0), "writing files without -k: an operand with more than one link is skipped, never opened");
    }
  }
  V_ASSERT(decompress || !spec_has_compressed_suffix(name, len) || (rv == -1 && g_open_in_calls == 0), "compressing: an operand with a compressed suffix is always skipped, never opened");
  V_ASSERT(!g_in_removed && !g_touched_existing && g_out_state == OUT_NONE, "input_init has no file-system effect");
  if (rv == 0) V_CANARY("operand admitted");
  if (rv == -1 && g_open_in_calls == 1) V_CANARY("open or fstat failed");
}

void h_input_init_stdin(void)
{
  struct stat sb; sym_options();
  int rv = input_init(0, &sb);
  V_ASSERT(rv == 0 && ispec.fd == STDIN_FILENO && ispec.total == 0 && ispec.size == 0, "no operand: standard input");
  V_CANARY("stdin");
}

/* ================= O17.3 / O16.1 output_init() ================= */
void h_output_init(void)
{
  V_IN_ARR(char, name, NAME_MAX_LEN + 1);
  size_t len = sym_name(name);
  struct arg op; struct stat sb; { struct stat s; sb = s; }
  op.next = 0; op.val = name;
  sym_options();
  V_ASSUME(decompress || !spec_has_compressed_suffix(name, len));   /* guaranteed by input_init */
  warned = 0; opathn = 0; g_out_state = OUT_NONE; g_sig_blocked = 1; g_cur_operand = name; g_touched_existing = 0;
  int rv = output_init(&op, &sb);
  V_ASSERT(INV_J, "output_init: J holds on return (tracked path set iff a partial output exists)");
  V_ASSERT(ospec.total == 0, "output byte counter reset");
  if (outmode == OM_STDOUT) V_ASSERT(rv == 0 && ospec.fd == STDOUT_FILENO && g_out_state == OUT_NONE, "-c: standard output, no file created");
  if (outmode == OM_DISCARD) V_ASSERT(rv == 0 && ospec.fd == -1 && g_out_state == OUT_NONE, "-t: output discarded, no file created");
  if (outmode == OM_REGF) {
    V_ASSERT(force || !g_touched_existing, "without -f no existing file is removed");
    if (rv == 0) {
      V_ASSERT(g_out_state == OUT_OPEN_PARTIAL && opathn == g_out_path && ospec.fd == g_out_fd, "created output is tracked");
      V_ASSERT(g_open_mode == (sb.st_mode & (S_IRUSR | S_IWUSR)), "output created with at most the owner read/write bits of the input");
      char want[NAME_MAX_LEN + 6]; size_t wl, i; int same = 1;
      if (decompress) wl = spec_decompressed_name(name, len, want);
      else { for (i = 0; i < len; i++) want[i] = name[i]; want[len] = '.'; want[len + 1] = 'b'; want[len + 2] = 'z'; want[len + 3] = '2'; want[len + 4] = 0; wl = len + 4; }
      for (i = 0; i <= wl; i++) if (opathn[i] != want[i]) same = 0;
      V_ASSERT(same, "output name follows the documented suffix rules");
      V_CANARY("output created");
    } else {
      V_ASSERT(rv == -1 && warned && g_out_state == OUT_NONE && opathn == 0, "output not created: skipped with a warning, nothing tracked");
      V_CANARY("output skipped");
    }
  }
}

/* ================= O17.4 / O16.1 output_regf_uninit() ================= */
void h_output_regf_uninit(void)
{
  struct stat sb; { struct stat s; sb = s; }
  char *path = malloc(4);
  V_ASSUME(path != 0);
  int fd; V_ASSUME(fd >= 3);
  opathn = path; g_out_path = path; g_out_state = OUT_OPEN_PARTIAL; g_out_fd = fd; g_sig_blocked = 1;
  g_meta_step = 0; g_chmod_calls = 0; g_utimens_calls = 0; g_close_out_calls = 0; warned = 0;
  output_regf_uninit(fd, &sb);
  /* normal return */
  V_ASSERT(g_out_state == OUT_CLOSED_COMPLETE && opathn == 0, "output_regf_uninit returns only with the output closed complete and the tracked path cleared");
  V_ASSERT(g_utimens_calls == 1 && g_ut0.tv_sec == sb.st_atim.tv_sec && g_ut0.tv_nsec == sb.st_atim.tv_nsec && g_ut1.tv_sec == sb.st_mtim.tv_sec && g_ut1.tv_nsec == sb.st_mtim.tv_nsec,
           "access/modification times of the input are transferred");
  V_ASSERT(!g_chown_ok || (g_chmod_calls == 1 && g_chmod_mode == (sb.st_mode & (S_IRWXU | S_IRWXG | S_IRWXO))), "after a successful fchown the input's permission bits are transferred");
  V_ASSERT(g_chown_ok || (g_chmod_calls == 0 && warned), "failed fchown: mode stays at the 0600 creation mode and a warning is issued");
  V_ASSERT(g_close_out_calls == 1, "closed exactly once");
  if (g_chown_ok) V_CANARY("metadata transferred");
  if (!g_chown_ok) V_CANARY("fchown failed");
}

/* ================= main(): operand loop (C16 O16.2/O16.4, C17 O17.5, C18 O18.3) ================= */
int g_operands_seen, g_cur_admitted, g_work_calls_at_begin;
struct { bool decompress, force, keep, ultra, small; int outmode; unsigned bs100k, num_worker; } g_opt0;

void verif_operand_begin(const char *name, int input_ret)
{
  /* every operand starts from the same clean per-operand state */
  __CPROVER_assert(opathn == 0 && !g_sig_blocked, "operand start: no tracked output, signals unblocked");
  __CPROVER_assert(input_ret != 0 || ispec.total == 0, "operand start: input byte counter reset");
  if (g_operands_seen == 0) {
    g_opt0.decompress = decompress; g_opt0.force = force; g_opt0.keep = keep; g_opt0.ultra = ultra; g_opt0.small = small;
    g_opt0.outmode = outmode; g_opt0.bs100k = bs100k; g_opt0.num_worker = num_worker;
  }
  g_operands_seen++;
  g_cur_operand = name; g_cur_admitted = (input_ret == 0);
  g_out_state = OUT_NONE; g_out_path = 0; g_out_fd = -100; g_in_removed = 0; g_meta_step = 0; g_work_calls_at_begin = g_work_calls;
}

void verif_operand_end(void)
{
  int ran = g_work_calls - g_work_calls_at_begin;
  __CPROVER_assert(opathn == 0 && g_out_state != OUT_OPEN_PARTIAL, "operand end: no partial output is left and nothing is tracked");
  __CPROVER_assert(!g_sig_blocked, "operand end: signals are unblocked again (cli/sti balanced on every path)");
  __CPROVER_assert(ran == 0 || ran == 1, "operand end: work() ran at most once");
  __CPROVER_assert(ran == g_cur_admitted || (g_cur_admitted && ran == 0 && g_out_state == OUT_NONE && warned), "operand end: an admitted operand is processed unless its output could not be created (warning)");
  __CPROVER_assert(!g_in_removed || (ran == 1 && g_out_state == OUT_CLOSED_COMPLETE && outmode == OM_REGF && !keep), "operand end: input removed only after a complete output, only when writing files without -k");
  __CPROVER_assert(!(ran == 1 && outmode == OM_REGF) || g_out_state == OUT_CLOSED_COMPLETE, "operand end: a processed FILE operand has a complete, closed output");
  __CPROVER_assert(decompress == g_opt0.decompress && force == g_opt0.force && keep == g_opt0.keep && ultra == g_opt0.ultra && small == 0 &&
                   (int)outmode == g_opt0.outmode && num_worker == g_opt0.num_worker && (decompress || bs100k == g_opt0.bs100k),
                   "operand end: no option changed between operands (each operand is processed as if alone)");
}

/* Stands for opts_setup()'s ASSUMED contract in main() (its own behaviour is C22): after the real
   opts_setup() has run on an empty command line, every option takes an arbitrary value and the operand
   list becomes 0..2 operands with arbitrary short names.  (Done as a woven ghost call instead of
   --replace-call-with-contract: dfcc write-set instrumentation of all of main.c exhausts memory.) */
#ifndef MAIN_NAME_LEN
#define MAIN_NAME_LEN 2
#endif
#ifndef MAIN_MAX_OPERANDS
#define MAIN_MAX_OPERANDS 1
#endif
static struct arg *sym_operand(void)
{
  struct arg *a = malloc(sizeof(*a));
  char *n = malloc(MAIN_NAME_LEN + 1);
  __CPROVER_assume(a != 0 && n != 0);
  n[MAIN_NAME_LEN] = 0;
  a->val = n; a->next = 0;
  return a;
}
void verif_after_opts(struct arg **operands)
{
  int n; bool b0, b1, b2, b3, b4, b5; int om; unsigned lvl, nw;
  decompress = b0; force = b1; keep = b2; small = b4; ultra = b5;
  verbose = 0;     /* -v only adds the floating-point ratio report, which is irrelevant here and very costly to bit-blast */
  __CPROVER_assume(om == OM_STDOUT || om == OM_DISCARD || om == OM_REGF); outmode = om;
#ifdef MAIN_OM          /* the operand-loop obligation is split into one instance per (output mode, direction) */
  outmode = MAIN_OM; decompress = MAIN_DECOMPRESS;
#endif
  __CPROVER_assume(lvl >= 1 && lvl <= 9 && nw >= 1); bs100k = lvl; num_worker = nw;
  __CPROVER_assume(n >= 0 && n <= MAIN_MAX_OPERANDS);
  __CPROVER_assume(outmode != OM_REGF || n > 0);          /* opts_setup turns OM_REGF without operands into OM_STDOUT */
  __CPROVER_assume(outmode != OM_DISCARD || decompress);   /* -t implies decompression */
  *operands = 0;
  if (n >= 1) { *operands = sym_operand(); if (n == 2) (*operands)->next = sym_operand(); }
}
char *getenv_opts(const char *n);
char *getenv(const char *n) { return g_opts_harness ? getenv_opts(n) : 0; }
long sysconf(int n) { long r; __CPROVER_assume(r >= 1); return r; }

void h_main(void)
{
  char a0[4] = "lbz";
  char *argv[2] = { a0, 0 };
  { bool w; warned = w; }   /* any earlier operand may or may not have been skipped */
  opathn = 0; g_sig_blocked = 0; g_operands_seen = 0; g_work_calls = 0; g_stdout_close_failed = 0;
  main(1, argv);
  V_ASSERT(0, "main() never returns (it ends in _exit)");
}

/* ================= O7.2 / O21.1: the DEF reporters ================= */
void h_reporters(void)
{
  V_IN(int, which);
  V_IN(int, x);
  V_ASSUME(which >= 0 && which <= 8);
  opathn = 0; g_out_state = OUT_NONE; g_stderr_writes = 0; g_bailouts = 0; warned = 0;
  g_rep_mode = which; g_rep_x = x;
  switch (which) {
  case 0: failfx(&ispec, x, "read()"); V_ASSERT(0, "failfx never returns"); break;
  case 1: failx(x, "close()"); V_ASSERT(0, "failx never returns"); break;
  case 2: failf(&ispec, "compressed data error"); V_ASSERT(0, "failf never returns"); break;
  case 3: fail("message"); V_ASSERT(0, "fail never returns"); break;
  case 4: warnx(x, "skipping"); V_ASSERT(warned == 1, "warnx sets the warning flag"); break;
  case 5: warn("skipping"); V_ASSERT(warned == 1, "warn sets the warning flag"); break;
  case 6: warnfx(&ispec, x, "w"); V_ASSERT(warned == 1, "warnfx sets the warning flag"); break;
  case 7: info("i"); V_ASSERT(warned == 0, "info does not set the warning flag"); break;
  case 8: infox(x, "i"); V_ASSERT(warned == 0, "infox does not set the warning flag"); break;
  }
  V_ASSERT(g_stderr_writes > 0, "non-fatal reporters always print");
  V_CANARY("non-fatal reporter returns");
}

/* ================= C22: opts_setup() against a model of the documented rules ================= */
/* Token menu: every documented spelling that needs no option argument, two clusters, "--" and two operands. */
enum { E_D = 1, E_Z = 2, E_C = 4, E_T = 8, E_K = 16, E_F = 32, E_U = 64, E_LVL = 128, E_STOP = 256, E_OPERAND = 512, E_NOP = 1024, E_V = 2048 };
struct tok { const char *s; int eff; int eff2; int lvl; };
static const struct tok MENU[] = {
  /* 0..16: short options and clusters */
  { "-d", E_D, 0, 0 }, { "-z", E_Z, 0, 0 }, { "-c", E_C, 0, 0 }, { "-t", E_T, 0, 0 }, { "-k", E_K, 0, 0 }, { "-f", E_F, 0, 0 },
  { "-u", E_U, 0, 0 }, { "-1", E_LVL, 0, 1 }, { "-5", E_LVL, 0, 5 }, { "-9", E_LVL, 0, 9 }, { "-q", E_NOP, 0, 0 }, { "-s", E_NOP, 0, 0 }, { "-v", E_V, 0, 0 },
  { "-dc", E_D, E_C, 0 }, { "-zk", E_Z, E_K, 0 }, { "-td", E_T, E_D, 0 }, { "-cz", E_C, E_Z, 0 },
  /* 17..31: long options */
  { "--decompress", E_D, 0, 0 }, { "--compress", E_Z, 0, 0 }, { "--stdout", E_C, 0, 0 }, { "--test", E_T, 0, 0 }, { "--keep", E_K, 0, 0 },
  { "--force", E_F, 0, 0 }, { "--sequential", E_U, 0, 0 }, { "--fast", E_LVL, 0, 1 }, { "--best", E_LVL, 0, 9 }, { "--small", E_NOP, 0, 0 },
  { "--quiet", E_NOP, 0, 0 }, { "--repetitive-fast", E_NOP, 0, 0 }, { "--repetitive-best", E_NOP, 0, 0 }, { "--exponential", E_NOP, 0, 0 }, { "--verbose", E_V, 0, 0 },
  /* 32..34 */
  { "--", E_STOP, 0, 0 }, { "file", E_OPERAND, 0, 0 }, { "x.bz2", E_OPERAND, 0, 0 },
};
#define NMENU (sizeof MENU / sizeof MENU[0])
static const char *const PNAMES[] = { "lbzip2", "bzip2", "bunzip2", "lbunzip2", "bzcat", "lbzcat", "anything" };

/* documented model */
struct model { int decompress, outmode, force, keep, ultra; unsigned lvl; int conflict; int stopped; const char *operands[6]; int nop; };
static void model_effect(struct model *m, int e, int lvl)
{
  if (e == E_D || e == E_Z) { m->decompress = (e == E_D); if (m->outmode == OM_DISCARD) m->outmode = OM_REGF; }   /* last of -d/-z wins and cancels an earlier -t */
  else if (e == E_C) { if (m->outmode == OM_DISCARD) m->conflict = 1; else m->outmode = OM_STDOUT; }               /* -c and -t are incompatible */
  else if (e == E_T) { if (m->outmode == OM_STDOUT) m->conflict = 1; else { m->outmode = OM_DISCARD; m->decompress = 1; } }  /* -t implies decompression */
  else if (e == E_K) m->keep = 1;
  else if (e == E_F) m->force = 1;
  else if (e == E_U) m->ultra = 1;
  else if (e == E_LVL) m->lvl = lvl;
}
static void model_token(struct model *m, const struct tok *t)
{
  if (m->conflict) return;
  if (m->stopped || t->eff == E_OPERAND) { m->operands[m->nop++] = t->s; return; }
  if (t->eff == E_STOP) { m->stopped = 1; return; }
  model_effect(m, t->eff, t->lvl);
  if (t->eff2 && !m->conflict) model_effect(m, t->eff2, t->lvl);
}

static const char *g_env_val[3];   /* LBZIP2, BZIP2, BZIP */
static char g_envbuf[3][20];
char *getenv_opts(const char *n)
{
  int i = !strcmp(n, "LBZIP2") ? 0 : !strcmp(n, "BZIP2") ? 1 : !strcmp(n, "BZIP") ? 2 : -1;
  if (i < 0 || !g_env_val[i]) return 0;
  strcpy(g_envbuf[i], g_env_val[i]);
  return g_envbuf[i];
}
static char *g_strtok_save;
char *strtok(char *s, const char *sep)
{
  /* tokens in this harness contain no separator: first call returns the string, the next NULL */
  if (s) { g_strtok_save = 0; if (*s == 0) return 0; return s; }
  return 0;
}

#ifndef OPT_E0     /* default tuple when built by hand */
#define OPT_E0 0
#define OPT_E1 2
#define OPT_E2 3
#define OPT_A1 1
#define OPT_A2 33
#endif
void h_opts_setup(void)
{
  /* One instance = one concrete 5-tuple of tokens (LBZIP2, BZIP2, BZIP, argv[1], argv[2]) from the documented spellings;
     which of the five are present, and the invocation name, are symbolic (all 32 sub-selections x 7 names per instance).
     Concrete token text lets symbolic execution fold the option-name comparisons. */
  V_IN(unsigned, pn);
  V_IN(unsigned, present);
  V_ASSUME(pn < 7 && present < 32);
#ifdef OPT_PRESENT          /* instance with a fixed selection (cheap: the whole argument list is concrete, the invocation name stays symbolic) */
  V_ASSUME(present == (OPT_PRESENT));
#endif
  int e0 = (present & 1) ? OPT_E0 : -1, e1 = (present & 2) ? OPT_E1 : -1, e2 = (present & 4) ? OPT_E2 : -1;
  int a1 = (present & 8) ? OPT_A1 : -1, a2 = (present & 16) ? OPT_A2 : -1;
  if (a1 < 0) { a1 = a2; a2 = -1; }
  /* program state as at process start */
  decompress = 0; outmode = OM_REGF; bs100k = 9; force = 0; keep = 0; ultra = 0; small = 0; verbose = 0; num_worker = 0; warned = 0;
#ifdef OPT_SYMSTATE         /* transition instance: ONE token applied to EVERY prior option state (what earlier tokens may have left), neutral invocation name */
  V_IN(int, d0); V_IN(int, om0); V_IN(unsigned, l0); V_IN(int, f0); V_IN(int, k0); V_IN(int, u0);
  V_ASSUME(pn == 6 && (d0 == 0 || d0 == 1) && (om0 == OM_STDOUT || om0 == OM_DISCARD || om0 == OM_REGF) && l0 >= 1 && l0 <= 9 && (f0 == 0 || f0 == 1) && (k0 == 0 || k0 == 1) && (u0 == 0 || u0 == 1));
  V_ASSUME(om0 != OM_DISCARD || d0 == 1);          /* reachable prior states: -t always comes with decompression unless a later -z cancelled -t as well */
  decompress = d0; outmode = om0; bs100k = l0; force = f0; keep = k0; ultra = u0;
#endif
  switch (pn) { case 0: pname = PNAMES[0]; break; case 1: pname = PNAMES[1]; break; case 2: pname = PNAMES[2]; break; case 3: pname = PNAMES[3]; break;
    case 4: pname = PNAMES[4]; break; case 5: pname = PNAMES[5]; break; default: pname = PNAMES[6]; break; }
  g_env_val[0] = e0 >= 0 ? MENU[e0].s : 0; g_env_val[1] = e1 >= 0 ? MENU[e1].s : 0; g_env_val[2] = e2 >= 0 ? MENU[e2].s : 0;
  char a0[4] = "prg";
  char *argv[4]; size_t argc = 1;
  argv[0] = a0;
  if (a1 >= 0) argv[argc++] = (char *)MENU[a1].s;
  if (a2 >= 0) argv[argc++] = (char *)MENU[a2].s;
  argv[argc] = 0;
  /* documented model: invocation name, then LBZIP2, BZIP2, BZIP tokens, then the command line */
  struct model m; memset(&m, 0, sizeof m);
  m.outmode = OM_REGF; m.lvl = 9;
#ifdef OPT_SYMSTATE
  m.decompress = d0; m.outmode = om0; m.lvl = l0; m.force = f0; m.keep = k0; m.ultra = u0;
#endif
  if (pn == 2 || pn == 3) m.decompress = 1;
  if (pn == 4 || pn == 5) { m.decompress = 1; m.outmode = OM_STDOUT; }
  if (e0 >= 0) model_token(&m, &MENU[e0]);
  if (e1 >= 0) model_token(&m, &MENU[e1]);
  if (e2 >= 0) model_token(&m, &MENU[e2]);
  if (a1 >= 0) model_token(&m, &MENU[a1]);
  if (a2 >= 0) model_token(&m, &MENU[a2]);
  if (!m.conflict && m.outmode == OM_REGF && m.nop == 0) m.outmode = OM_STDOUT;   /* no operands: filter */
  g_opts_expect_fail = m.conflict; g_opts_harness = 1;
  struct arg *ops;
#ifdef OPT_PRESENT
  V_CANARY("opts_setup called");      /* a fixed selection may legitimately end in the -c/-t conflict exit, so reachability is shown before the call */
#endif
  opts_setup(&ops, argc, argv);
  V_ASSERT(!m.conflict, "opts_setup returns only when the documented rules accept the option combination");
  V_ASSERT(decompress == m.decompress, "mode: invocation name, then -d/-z/-t in order, last wins");
  V_ASSERT((int)outmode == m.outmode, "output mode: bzcat/lbzcat default, -c/-t, -d/-z cancelling -t, filter when no operands");
  V_ASSERT(bs100k == m.lvl && force == m.force && keep == m.keep && ultra == m.ultra, "level, -f, -k, -u as documented; ignored options change nothing");
  int i = 0; struct arg *p = ops; int same = 1;
  for (; i < m.nop; i++) { if (!p || p->val == 0 || strcmp(p->val, m.operands[i]) != 0) { same = 0; break; } p = p->next; }
  V_ASSERT(same && p == 0, "operands: exactly the non-option tokens, in order (environment tokens first)");
#ifndef OPT_PRESENT
  V_CANARY("opts_setup returns");
#endif
}
